#!/usr/bin/env python3
"""Shape probe: descriptors of design shapes that are (or were) absent from the corpus are pushed through the generic
checks (Engine A soundness/completeness/uniqueness/trial count, the RandomGen enumeration queries, C08 synthesis, C15
derived columns, C17 mismatch verdicts on solver-generated sequences, C20 returned columns and conversions).  Used to look for library defects and reference false alarms before a shape is added to
vf/corpus.py; run with `.venv/bin/python tools/probe_shapes.py` (PYTHONPATH=<worktree> to probe a patched tree).
Evidence is not written; violations are printed."""
import sys, os
sys.path.insert(0, os.path.dirname(os.path.dirname(os.path.abspath(__file__))))
os.environ.setdefault('VERIF_ITEM_TIMEOUT', '200')
os.environ.setdefault('VERIF_OUT_DIR', '/tmp/probe-out')
from vf.corpus import *
from vf.designs import describe
from vf.common import Ctx, pmap
from vf.designcheck import check_design
from vf.randcheck import check_random
from vf.props import c15, c08, c17, c20
ONE = {'name': 'O', 'levels': ['o0']}
TRG = transition('Q', 'G')
QR = transition('Q', 'R')
A4W = {'name': 'A', 'levels': [['a0', 3], 'a1', 'a2', ['a3', 2]]}
ds = [
 D([A2,B2,TRA], cross('ABR','AB',[['Exclude','R','r0']], rcc=False)),
 D([A2,B2,TRA], cross('ABR','AR',[['Exclude','R','r0']], rcc=False)),
 D([A2,B2,TRA], cross('ABR','A',[['MinimumTrials',5],['Exclude','R','r1']])),
 D([A2,B2,C2], cross('ABC','AB',[['ExactlyK',2,'C',None]])),
 D([A2,B2,TRA], cross('ABR','AB',[['AtLeastKInARow',2,'R','r1']])),
 D([A2,B2,TRA], cross('ABR','AB',[['ExactlyKInARow',1,'R',None]])),
 D([A2,B2,CONG], cross('ABG','AB',[['Sequential','G']])),
 D([A2,B2,CONG], cross('ABG','A',[['LatinSquare',['A','G']]])),
 D([A3,B2], cross('AB','AB',[['MinimumTrials',4]])),
 D([A3,B2], cross('AB','A',[['MinimumTrials',2]])),
 D([AW,B2,C3], multi('ABC',['AB','C'],[['Exclude','C','c2']],mode='weight',rcc=False)),
 D([AW,B2,C3], multi('ABC',['A','C'],[['AtMostKInARow',1,'A','a0']],mode='repeat')),
 D([A2,B2,C3], merge([cross('ABC','A',[['AtMostKInARow',1,'B','b0']]), cross('ABC','C')],[['ExactlyK',2,'B','b1']],mode='weight')),
 D([A2,B2], repeat(repeat(cross('AB','A'),[['MinimumTrials',4]]),[['MinimumTrials',8]])),
 D([A2,B2,C3], repeat(multi('ABC',['A','C'],mode='repeat'),[['MinimumTrials',7]])),
 D([A2,B2,C2], nest(cross('A','A'), merge([cross('BC','B'),cross('BC','C')]))),
 D([A2,B2, window('W','A',3,stride=2)], cross('ABW','AB',[['ExactlyK',1,'W','w0']])),
 D([A2,B2, window('W','A',3,stride=2,start=3)], cross('ABW','AB',[['AtMostKInARow',1,'W','w1']])),
 D([A2,B2,CONG,TRG], cross('ABGQ','AB',[['ExactlyK',1,'Q','q0']])),
 D([A2,B2,CONG,TRG], cross('ABGQ','Q')),
 D([A2,B2,TRA,transition('Q','R')], cross('ABRQ','AB')),
 D([A2,B2,TRA,transition('Q','R')], cross('ABRQ','AB',[['AtMostKInARow',1,'Q','q0']])),
 D([A2,ONE], cross('AO','AO')),
 D([A2,ONE], cross('AO','A',[['AtMostKInARow',1,'O','o0']])),
 D([A2,B2,ONE,within('G',['A','O'],preds=(('table',[['a0','o0']]),'else'))], cross('ABOG','BG')),
 D([A2,B2], cross('AB','',[['MinimumTrials',3],['AtMostKInARow',1,'A','a0']])),
 D([A2,B2,TRA], cross('ABR','',[['MinimumTrials',3],['ExactlyK',1,'R','r0']])),
 D([A2,B2,C2], multi('ABC',['AB','C'],[['Pin',-1,'C','c0']],mode='equal')) ,
 D([A2,B3,C2], multi('ABC',['AC','B'],[],mode='weight',alignment='parallel start')),
 D([A2,B2,TRA,TRB], multi('ABRS',['R','S'],mode='repeat',alignment='parallel start')),
 D([A2,B3,TRA], multi('ABR',['AR','B'],[['AtMostKInARow',2,'R','r0']],mode='weight',alignment='post preamble')),
 D([A2,B2,TRA,QR], cross('ABRQ','AB',[['AtMostKInARow',1,'Q','q0']])),
 D([A2,B2,TRA,QR], cross('ABRQ','AB',[['ExactlyK',1,'Q','q1']])),
 D([A2,B2,TRA,QR], cross('ABRQ','Q')),
 D([A2,B2,TRA,QR], cross('ABRQ','AQ')),
 D([A2,B2,TRA,QR], cross('ABRQ','RQ')),
 D([A3,B2,TRA,QR], cross('ABRQ','A',[['MinimumTrials',5],['AtLeastKInARow',2,'Q','q0']])),
 D([A2,B2,TRA,window('W','R',3)], cross('ABRW','AB',[['ExactlyK',1,'W','w0']])),
 D([A2,B2,TRA,window('W','R',2,start=1)], cross('ABRW','AB',[['AtMostKInARow',1,'W','w1']])),
 D([A2,B2,TRA,window('W','R',2,start=3)], cross('ABRW','AB',[['AtMostKInARow',1,'W','w1']])),
 D([A2,B2,window('V','A',3),transition('Q','V')], cross('ABVQ','AB',[['AtMostKInARow',1,'Q','q0']])),
 D([A2,B2,TRA,QR], repeat(cross('ABRQ','AB',[['AtMostKInARow',1,'Q','q0']]),[['MinimumTrials',8]])),
 D([A2,B2,TRA,QR,transition('P','Q')], cross('ABRQP','AB',[['ExactlyK',1,'P','p0']])),
 D([A2,B2,TRA,{'name':'Q','window':{'kind':'transition','factors':['R','B']},'levels':[{'name':'q0','pred':['table',[[[x,x],[y,y]] for x in ('r0','r1') for y in ('b0','b1')]]},{'name':'q1','else':True}]}], cross('ABRQ','AB',[['AtMostKInARow',2,'Q','q1']])),
 D([A2,B2,TRA], cross('RAB','AB',[['AtMostKInARow',1,'R','r0']])),
 D([A2,B2,CONG], cross('GAB','GA')),
 D([A2,B2,CONG,TRA], cross('RGBA','GR')),
 D([A2,B2,C2], multi('ABC',['A','B','C'],mode='equal')),
 D([A2,B3,C2], multi('ABC',['A','B','C'],mode='weight')),
 D([A2,B3,C2], multi('ABC',['A','B','C'],mode='repeat')),
 D([A2,B3,C2,TRA], multi('ABCR',['R','B','C'],mode='weight',alignment='parallel start')),
 D([A4W,B2], cross('AB','A')),
 D([A4W,B2], cross('AB','B',[['AtMostKInARow',2,'A','a0']])),
 D([A3,B2], cross('AB','A',[['Exclude','A','a1'],['Sequential','A']],rcc=False)),
 D([A3,B3], cross('AB','A',[['Exclude','B','b1'],['LatinSquare',['A','B']]],rcc=False)),
 D([A2,B2,TRA], cross('ABR','AR',[['MinimumTrials',7]])),
 D([A2,B2,TRA], cross('ABR','R',[['MinimumTrials',4]])),
 D([A2,B2,TRA], repeat(cross('ABR','AR'),[['MinimumTrials',7]])),
 D([A2,B2,TRA], repeat(cross('ABR','R'),[['MinimumTrials',5]])),
 D([A2,B2,window('W','A',2,stride=3)], cross('ABW','AB',[['MinimumTrials',8],['ExactlyK',2,'W','w0']])),
 D([A2,B2,window('W','A',1,stride=2)], cross('ABW','AB',[['ExactlyK',1,'W','w0']])),
 D([A2,B2,window('W','A',1,stride=2,start=1,preds=(('first','a0'),'else'))], cross('ABW','AB',[['ExactlyK',1,'W','w0']])),
 D([A2,B2,C2,TRA], merge([cross('ABR','AR'),cross('ABC','C')],mode='repeat')),
 D([A2,B2,C2,TRA], merge([cross('ABR','AR'),cross('ABC','C')],mode='weight',alignment='parallel start')),
 D([A2,B2,C2,TRA,TRB], merge([cross('ABRS','R'),cross('ABRS','S')],[['AtMostKInARow',1,'R','r0']])),
 D([A2,B2,C2], nest(multi('AB',['A','B'],mode='equal'),cross('C','C'))),
 D([A2,B2,C2], nest(repeat(cross('A','A'),[['MinimumTrials',4]]),cross('BC','B'))),
 D([A2,B2,C2], repeat(nest(cross('A','A'),cross('B','B')),[['MinimumTrials',8]])),
 D([A2,B2,C2], merge([nest(cross('A','A'),cross('B','B')), cross('ABC','C')]))
]


def one(sub, d):
    return {'design': check_design(sub, (d, ['sound', 'complete', 'unique', 'trials'])),
            'random': check_random(sub, (d, ['valid', 'uniform', 'exhaust', 'agree'], 5000)),
            'c08': c08.synth(sub, d), 'c15': c15.derived_columns(sub, d), 'c17': c17.check(sub, d),
            'c20': c20.hidden_keys(sub, d)}


if __name__ == '__main__':
    os.makedirs(os.environ['VERIF_OUT_DIR'], exist_ok=True)
    os.chdir(os.environ['VERIF_OUT_DIR'])
    ctx = Ctx('C01', 'quick', 0, 'other')
    res = pmap(ctx, one, ds)
    for d, r in zip(ds, res):
        print(describe(d)[-110:], r)
    print('violations:', len(ctx.violations))
    for v in ctx.violations:
        print(str(v)[:900])
    print(ctx.inconclusive[:5], ctx.harness_errors[:5])
