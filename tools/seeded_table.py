#!/usr/bin/env python3
"""Rewrites the seeded-changes table in DESIGN.md from seeded/RESULTS.json and seeded/*/meta.json."""
import json
import os
import re

ROOT = os.path.dirname(os.path.dirname(os.path.abspath(__file__)))


def main():
    res = json.load(open(os.path.join(ROOT, 'seeded', 'RESULTS.json')))
    rows = ['| change | breaks | what it needs to manifest | caught by | missed by |', '|---|---|---|---|---|']
    n_det = n_all = 0
    for d in sorted(os.listdir(os.path.join(ROOT, 'seeded'))):
        full = os.path.join(ROOT, 'seeded', d)
        if not os.path.isdir(full):
            continue
        meta = json.load(open(os.path.join(full, 'meta.json')))
        r = res.get(d, {})
        runs = {k: v['verdict'] for k, v in r.items() if isinstance(v, dict)}
        det = sorted(k for k, v in runs.items() if v == 'DETECTED')
        mis = sorted(k for k, v in runs.items() if v != 'DETECTED')
        stale = [k for k in r if k.startswith('applies_at_')]
        needs = (meta.get('needs') or '')
        if isinstance(needs, list):
            needs = '; '.join(map(str, needs))
        needs = re.sub(r'\s+', ' ', str(needs))[:150].replace('|', '/')
        n_all += 1
        n_det += bool(det)
        rows.append(f"| {d} | {meta['property']} | {needs} | {', '.join(det) or ('patch no longer applies' if stale and not runs else '-')} "
                    f"| {', '.join(mis) or '-'} |")
    rows.append('')
    rows.append(f'{n_det} of {n_all} changes are caught by at least one check at the listed tier.')
    p = os.path.join(ROOT, 'DESIGN.md')
    s = open(p).read()
    s = re.sub(r'<!-- SEEDED-TABLE-BEGIN -->.*<!-- SEEDED-TABLE-END -->',
               '<!-- SEEDED-TABLE-BEGIN -->\n' + '\n'.join(rows) + '\n<!-- SEEDED-TABLE-END -->', s, flags=re.S)
    open(p, 'w').write(s)
    print(f'{n_det}/{n_all}')


if __name__ == '__main__':
    main()
