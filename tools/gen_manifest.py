#!/usr/bin/env python3
"""Regenerates /verif/MANIFEST.json from the table below (python3 tools/gen_manifest.py)."""
import json
import os

ROOT = os.path.dirname(os.path.dirname(os.path.abspath(__file__)))

TV = 'translation_validation'
OT = 'other'

# id -> (level, engine, technique, text, note, design_ref)
CHECKS = {
    'C01': (TV, 'A', 'SMT validation of the compiled design formula against a reference semantics written from the '
                     'documentation: F(x,aux) & not R(x) unsat, all Booleans symbolic; counterexamples decoded by the real '
                     'decoder and forced through the real IterateSATGen file path',
            'For each design of the generator space (fixed corpus + seeded random descriptors; T<=8/12) the clause list of '
            'the real pipeline is proved to have only models that decode to valid sequences (trial count, levels, '
            'derivations, crossing with weights, every constraint kind and scope, Repeat/Merge/Nest). The file each '
            'formula strategy hands to its solver is intercepted and compared with that clause list.',
            'Trusts the reference semantics vf/ref.py (documented rules; ambiguous corners are listed as outside), z3, and '
            'the solver/sampler binaries to return models. The quantifier over designs is enumeration/sampling.', '6 C01'),
    'C02': (TV, 'A+C', 'SMT soundness + completeness (definability closure for exists-aux) of the compiled formula against '
                       'the reference; library-performed exhaustion of IterateSATGen with solver-decided set equality',
            'Per design models(F)|x = models(R) is decided by two unsat queries; for designs with <=400/5000 solutions the '
            'real IterateSATGen is exhausted and its raw solutions must be distinct, valid and leave R & x-not-returned unsat.',
            'As C01; the closure procedure in vf/sat.py is checked per use (total+functional definitions by truth table/z3).',
            '6 C02'),
    'C03': (TV, 'A', 'SAT miter F(x,a) & F(x,a\') & a != a\' on the real compiled formula; definability closure as constructive '
                     'cross-check; sampling-set round trip through save_cnf/parse_cnf_file',
            'Per design the uniqueness miter over the complete formula is unsat, every auxiliary is either unit-fixed or '
            'has a total+functional definition, and the sampling set the samplers read is exactly 1..support.',
            'Trusts CryptoMiniSat; trial variables = 1..variables_per_sample() (C14).', '6 C03'),
    'C04': (OT, 'C+A', 'library-performed exhaustive enumeration of every RandomGen draw sequence (choice oracle in place of '
                       'random.randrange) with the real rejection test; each accepted candidate judged by the reference validator; '
                       'CrossHair on each constraint\'s potential_sample_conforms with a symbolic column',
            'For every corpus design with <=5000/60000 candidates, every draw sequence the real RandomGen can make is '
            'visited once through the enumerator\'s own generation methods; every accepted candidate must be a valid '
            'sequence (trial count, derivations, crossing incl. additional crossings, every constraint).',
            'The quantifier over random draws is exhaustive enumeration (bounded), not a solver verdict; reference '
            'semantics vf/ref.py trusted; designs above the bound are outside.', '6 C04'),
    'C05': (OT, 'C+A', 'exhaustive candidate enumeration + SMT set equality: R(x) & x-not-in-accepted unsat; key/sequence '
                       'injectivity and equal draw probability over all candidates',
            'Per design: candidate keys are distinct and as many as possible_keys, accepted candidates are distinct valid '
            'sequences, z3 proves no valid sequence is missing, and all candidates have the same draw probability.',
            'As C04. Known finding: draw probabilities differ when crossing combinations admit different numbers of source '
            'completions (random_components).', '6 C05'),
    'C06': (OT, 'C+A', 'public RandomGen.sample exhausted against the exhaustively enumerated accepted set; solution_count '
                       'metric against the solver-established number of valid sequences',
            'Asking the real RandomGen for more than exist returns exactly the accepted candidate set and stops; for designs '
            'without rejection the reported solution_count equals |models(R)| (z3-proved equal to the accepted set).',
            'As C04.', '6 C06'),
    'C07': (OT, 'C+A', 'exhaustive RandomGen image vs the real compiled formula: incremental SAT under assumptions for every '
                       'RandomGen sequence; SMT exists-aux F(x) & prints-as-no-RandomGen-sequence unsat (closure form)',
            'Without any reference semantics: every sequence RandomGen can return is a model of the formula IterateSATGen '
            'solves, and z3 proves the formula has no trial assignment that prints as a sequence outside RandomGen\'s image.',
            'Bounded to designs with <=5000/60000 candidates accepted by both strategies.', '6 C07'),
    'C08': (OT, 'B+A', 'CrossHair symbolic execution of the real constructors and compilation with the integer parameters '
                       'symbolic; concrete synthesis of every corpus design with the four strategies (UniGen in a child process)',
            'For each design shape the run-length k, Pin index, MinimumTrials or window start is symbolic and CrossHair '
            'confirms over all paths that constructor + build_cnf + UCSolutionEnumerator raise nothing but documented '
            'refusals; every corpus descriptor is synthesised with IterateSATGen, RandomGen, CMSGen and UniGen and any '
            'other exception or a dead interpreter is a violation.',
            'The quantifier over designs is enumeration; parameters are symbolic per shape within small ranges. RandomGen '
            'runs over the per-design time limit are inconclusive.', '6 C08'),
    'C14': (OT, 'A', 'the real allocation table as a z3 function of symbolic (trial, factor, level): injectivity, image, '
                     'order and auxiliary separation decided by z3; the real decoder run on exhaustive/single-cell one-hot assignments',
            'Per design the table read off _encode_variable is proved injective and onto 1..variables_per_sample(), '
            'increasing in the trial, consistent with factor_variables_for_trial / build_variable_lists / decode_variable, '
            'with every other formula variable above it; Gen.decode is executed on all one-hot assignments of small blocks '
            'and on all single-cell changes of larger ones.',
            'The decode part is concrete execution (exhaustive only for blocks with <=3000 assignments).', '6 C14'),
    'C09': (OT, 'C+A', 'SAT enumeration of the real formula and exhaustive candidate enumeration give `available`; the real '
                       'strategies are called with 4 requested sizes',
            'IterateSATGen, RandomGen and IterateGen return min(requested, available) pairwise distinct assignments; equal '
            'prints only within the multiplicity of weighted uncrossed copies.',
            'The requested count is enumerated (1, n-1, n, n+3); the for-any-solver distinctness is the blocking-clause '
            'query of C27.', '6 C09'),
    'C10': (TV, 'A', 'SMT/SAT equivalence of the real cardinality CNF against pseudo-Boolean reference; '
                     'definability closure for exists-aux; uniqueness miter',
            'For every n<=10 (thorough 20), k<=n+3, EQ/LT/GT and three variable-list shapes, the clause list from the real '
            'combine_cnf_with_requests is proved (unsat) sound, complete and uniquely extensible over all 2^n input '
            'assignments; counterexamples are replayed through cnf_is_satisfiable.',
            'Trusts z3 5.1 and CryptoMiniSat, the 150-line closure/glue in vf/sat.py, and the reading LT=fewer than k, '
            'GT=more than k. Outside: n beyond the bound.', '6 C10'),
    'C11': (TV, 'A', 'SMT equivalence of the real CNF conversions against an independent z3 translation of each formula; '
                     'z3 forall / definability closure for exists-new; uniqueness miter',
            'Every formula up to 4 (thorough 5) nodes over 4 literals with And/Or arity 0..3, Not, If, Iff, plus seeded '
            'samples of larger ones with shared sub-formulas, is pushed through to_cnf_tseitin / naive / switching and '
            'cnf_to_json; soundness, completeness, uniqueness of Tseitin variables and the fresh range are decided by '
            'z3 with all variables symbolic; exceptions count as violations; counterexamples are replayed by truth table.',
            'Trusts z3 and the 20-line formula-to-z3 translation (And([])=true, Or([])=false). The quantifier over '
            'formulas is enumeration/sampling, stated in the evidence.', '6 C11'),
    'C12': (TV, 'A', 'SMT check of each adder/pop-count builder against integer arithmetic (z3 LIA; SAT miter against an '
                     'independent unary counter above 12 inputs); closure for totality; uniqueness miter',
            'Each builder of core/cnf.py is called with concrete input variables and its clauses are proved to force the '
            'outputs to the binary (saturating) sum for every input assignment, to be extensible for every input and to '
            'leave no other freedom; widths up to 6/8, pop counts up to 12/24 inputs, saturate_at 0..6.',
            'Saturating specification: top bit set iff true sum >= 2^(saturate_at-1), exact when clear (what '
            'assert_k_of_n relies on). Trusts z3/CryptoMiniSat and vf/sat.py.', '6 C12'),
    'C13': (OT, 'B', 'CrossHair bounded symbolic execution of the real unranking functions with the index symbolic; '
                     'left-inverse (ranking) postconditions and pairwise-distinct postconditions; reachability twins',
            'For each parameter tuple in the bound, CrossHair confirms over all paths that every index in [0,N) yields a '
            'well-formed arrangement that an independent ranking function maps back to the index (mixed radix, '
            'combinations, combinations without replacement, permutation prefixes) or that differs from every other '
            'index (prefixes of permutations with copies, uniform and per-element, fresh and primed memo); N is a '
            'brute-force count that the library counting function must equal.',
            'Trusts CrossHair 0.0.110 + z3 and the harness ranking/counting code; parameter tuples are enumerated, '
            'the index is symbolic. Larger parameters are outside.', '6 C13'),
    'C15': (OT, 'B+A', 'CrossHair symbolic execution of the real constructors and DerivationProcessor with the derived '
                       'levels\' predicates as symbolic truth tables; concrete synthesis for every WithinTrial table pair',
            'For WithinTrial, Transition and Window(start 0/1, ElseLevel) factors in three roles (crossed, constrained, '
            'implied) CrossHair confirms over all tables: overlap <=> ValueError at construction, non-coverage <=> fatal '
            'error entry; all 256 WithinTrial table pairs are synthesised concretely ([] iff uncovered, right level per '
            'trial); for every corpus design with a derived factor, 3 sequences from the real IterateSATGen and RandomGen must '
            'carry the accepting level at every applicable trial and nothing elsewhere (also factors without variables that are '
            'filled in afterwards, early-start windows, strides, weighted sources). Level placement for every model is R rule 3 in C01/C02.',
            'Two-level factors over 2-level sources; CrossHair/z3 trusted.', '6 C15'),
    'C16': (OT, 'A+B', 'CrossHair symbolic execution of the real constructors with MinimumTrials n, level weight w and window '
                       'start symbolic against closed-form documented arithmetic; corpus comparison with the reference rule 1; '
                       'sequence lengths for all models via C01/C02, sampled per strategy here',
            'Six shapes (CrossBlock with weights / window start / Exclude, MultiCrossBlock, Repeat, Nest) are confirmed over '
            'all paths to report the closed-form trial count for every n, w, start in range; every corpus descriptor '
            '(incl. Nest designs and the mode x alignment grid) must report the documented count; 2 sequences per strategy '
            '(IterateSATGen, RandomGen, CMSGen, UniGen; SMGen on a fixed list of 8 designs, two of them known findings) are checked for length.',
            'Parameters are branched to concrete values path by path (solver-driven enumeration of the ranges); the '
            'for-all-models length statement is carried by R in C01/C02/C04.', '6 C16'),
    'C18': (TV, 'A', 'enumerated construction histories; per block, projection inclusion both ways between the formula built '
                     'with shared objects and the one built from fresh objects (SMT, closure form); mismatch verdicts compared',
            'Scenarios of 2-5 blocks sharing factor, constraint and block objects are built in every admissible order; after '
            'all are built each block must have the same trial count and exactly the same sequences as its fresh twin, and '
            'the real mismatch checker must give the same verdicts on solver-generated sequences and single-cell changes.',
            'Histories are enumerated (listed scenarios x orders); the set equality per block is a solver verdict.', '6 C18'),
    'C19': (OT, 'A', 'bounded exhaustive enumeration of call histories on real blocks; after each call object identity and the '
                     'recompiled clause list are compared (solver-decided projection equality when they differ syntactically); '
                     'final synthesis judged by the reference validator',
            'All histories of length <=2 (plus 150 seeded / all of length 3) over 10 operations on 8 blocks (incl. continuous '
            'factors computed from a discrete one, a design listing a derived factor first, a constrained weighted factor, a partial LatinSquare, Repeat, Nest): the block\'s design, '
            'crossings, constraints and compiled formula are unchanged after every call, and a final synthesize_trials '
            'returns the requested number of valid sequences with the same columns.',
            'The quantifier over histories is enumeration; the formula comparison falls back to a solver query only when '
            'the clause lists differ.', '6 C19'),
    'C20': (OT, 'B+A', 'CrossHair symbolic execution of the real converters on experiments with unconstrained symbolic values '
                       'and symbolic shape; CSV through an in-memory open() read back with the csv module; key sets of real sequences',
            'experiments_to_tuples/dicts are confirmed over all paths to reproduce every value in design order for plain, '
            'weight-desugared and continuous-factor blocks; save_experiments_csv round-trips a 7-value alphabet per cell; '
            'every corpus design, and every operand block of a Repeat/Merge/Nest after it was combined, returns exactly the '
            'user-declared columns and converts to the same tuples/dicts; a weighted uncrossed factor together with a continuous factor through three strategies.',
            'Bounded to 1-2 experiments, 1-3 trials; CSV 1-2 trials.', '6 C20'),
    'C21': (OT, 'B', 'CrossHair symbolic execution of the real tabulate_experiments with symbolic level per cell and symbolic '
                     'trial selection; independent parser of the captured stdout',
            'For each shape (incl. colliding multi-word level names, the empty level, two experiments, experiment columns in the opposite order from the selected factors) every assignment of '
            'levels to cells and every trial selection is explored; each printed row must carry the exact count and '
            'percentage string and every combination must appear exactly once.',
            'Bounded to <=3 trials/factors, 2 experiments; stdout captured.', '6 C21'),
    'C22': (OT, 'B', 'CrossHair symbolic execution of the real continuous sampling loop with distributions stubbed by symbolic draws',
            'block.sample_continuous is driven with symbolic integer draws and a symbolic window start: the result is the '
            'accepted attempt, both ContinuousConstraints over the same factor hold at every trial, derived and window factors see the same '
            'trial / the preceding outputs with NaN exactly where undefined, cumulative distributions restart per attempt.',
            'Integers stand for sampled reals (no float arithmetic in the library); at most 2 resampling attempts.', '6 C22'),
    'C17': (OT, 'A', 'solver-GENERATED testing of the real mismatch checker: z3 models of the reference (valid), z3 models '
                     'violating exactly one requirement group, all single-cell perturbations judged by the reference validator; '
                     'CrossHair on each constraint\'s potential_sample_conforms with a symbolic column (own block and Repeat)',
            'For every corpus design the real sample_mismatch_experiment is run on z3-generated valid sequences (must report '
            'nothing), on z3-generated sequences that violate exactly one requirement (must report something) and on every '
            'single-cell change of two valid sequences (verdict must equal validity).',
            'A per-sequence verdict on generated inputs, not a for-all claim; the reference is the oracle.', '6 C17'),
    'C23': (TV, 'A', 'SMT validation of weighted designs against the reference; copy-expanded twin compared through the real '
                     'formulas (functional-link inclusion by SMT, bounded SAT enumeration + assumption solving, model counts)',
            'Weighted designs are proved sound and complete against rule 7; each weighted design and its twin with '
            'separately named copies are compared: name-level projection equality for crossed weights, copy-level '
            'inclusion both ways for uncrossed weights, equal numbers of distinct solutions when the factor is in some but '
            'not all crossings.',
            'Weights 2 and 3; twin comparison excludes constraints/derivations that name the weighted level.', '6 C23'),
    'C24': (TV, 'A', 'projection inclusion between two real compiled formulas, both directions, decided by SMT after the '
                     'definability closure; no reference semantics',
            'For each design and documented law (MultiCrossBlock = Merge of CrossBlocks for every mode x alignment the '
            'constructors accept, Repeat = Merge REPEAT/EQUAL_PREAMBLE, Repeat(b,[]) = Merge([b]) = b, CrossBlock = '
            'MultiCrossBlock([c]) WEIGHT) both sides are built from fresh objects and proved to have the same trial '
            'sequences over all assignments; trial counts and refusals must agree.',
            'Trusts z3/CryptoMiniSat and vf/sat.py; variables are matched through the two real variable tables.', '6 C24'),
    'C25': (TV, 'A', 'SMT equality of the compiled Nest formula with the reference (rule 8) in both directions; '
                     'associativity by projection inclusion',
            'Nest designs without preambles (inner Multi/Repeat, nested Nest, constraints on inner/outer/Nest) are proved '
            'sound and complete against the documented group semantics, the trial count is the product, and '
            'Nest(Nest(a,b),c) = Nest(a,Nest(b,c)) is decided by inclusion both ways.',
            'Reference rule 8 in vf/ref.py; run-length constraints on the outer block are outside (undocumented units).',
            '6 C25'),
    'C26': (TV, 'A', 'SMT equality of compiled formula and reference with per-repetition vs global constraint windows; '
                     'discrimination by projection inclusion between the two placements',
            'Each constraint kind is placed on the inner block and on the combinator under Repeat (with and without a '
            'preamble), Merge and Nest; both placements are proved equal to the reference scopes, and the two placements '
            'are shown to differ (a sat inclusion query) so a collapse of the scopes cannot pass.',
            'Reference rule 6 in vf/ref.py; trial counts that are not whole repetitions are outside.', '6 C26'),
    'C27': (OT, 'B+A', 'CrossHair over the structure space of small CNFs and all support sizes through the real serialiser and '
                       'parsers (in-memory files); z3 equivalence of the real blocking clause with the negated cube; forced-'
                       'assignment runs of the solver output parsers',
            'DIMACS text: clauses exact, header counts, sampling-set lines exactly 1..support in chunks <=10, library '
            'parser round trip (confirmed over all paths per shape); update_file: for every sign pattern up to 5/8 '
            'variables and 3 successive updates the appended clause is z3-equivalent to the negated cube and nothing else '
            'changes; cryptominisat_solve / CMSGen / UniGen python paths / build_solution return the forced assignment.',
            'Literal magnitudes are concrete per path (5 values); solver binaries trusted.', '6 C27'),
    'C28': (TV, 'A', 'independent OPB reader to z3 linear constraints; SMT equivalence with the real SAT encoding '
                     '(closure for exists-aux) and with the pseudo-Boolean meaning; blocking constraint equivalence',
            'For a sweep of requests (EQ/LT/GT, n<=5/7, k<=n+2) and seeded random clause sets with requests, the text '
            'written by the real combine_and_save_opb is parsed independently and decided equivalent to exists-aux of the '
            'real combine_cnf_with_requests output over all assignments; the constraint appended by sample_ilp.update_file '
            'is decided equal to the negated cube for every sign pattern up to 4/6 variables.',
            'Gurobi is not needed and not present; the OPB reader in vf/props/c28.py is trusted. Replay evaluates the '
            'text concretely and asks the library SAT path.', '6 C28'),
}

NOT_APPLICABLE = {
    'C29': 'SMGen is a timer- and float-driven randomised search over ~35 module globals; no compiled artefact to hand '
           'to a solver and CrossHair cannot execute it deterministically (DESIGN.md section 7).',
}

ALL_IDS = [f'C{i:02d}' for i in range(1, 30)]


def main():
    checks = []
    for pid in ALL_IDS:
        if pid not in CHECKS:
            continue
        level, engine, technique, text, note, ref = CHECKS[pid]
        checks.append({
            'property_id': pid,
            'quick_cmd': f'./check {pid} --tier quick',
            'thorough_cmd': f'./check {pid} --tier thorough',
            'evidence_file': f'evidence/{pid}.json',
            'replay_cmd_template': f'./check {pid} --replay {{path}}',
            'engine': engine,
            'level_claimed': {'category': level, 'text': text, 'design_ref': f'DESIGN.md section {ref}'},
            'level_note': note,
            'technique': technique,
        })
    na = []
    for pid in ALL_IDS:
        if pid in CHECKS:
            continue
        reason = NOT_APPLICABLE.get(pid, 'check not built yet in this round (planned, see DESIGN.md section 6); '
                                         'nothing is claimed for it')
        na.append({'property_id': pid, 'reason': reason})
    manifest = {
        'version': 1,
        'setup_cmd': './check setup',
        'hooks': {
            'guard': 'SWEETPEA_VERIF_HOOKS',
            'enable': 'no source hooks are needed: checks import /repo as-is (guard reserved and unused)',
            'baseline_off_cmd': 'cd /repo && /venv/bin/python -m pytest -ra -q -p no:cacheprovider --timeout=900 '
                                '--continue-on-collection-errors',
            'source_commits': [],
            'add_only': True,
        },
        'engines': [
            {'name': 'A', 'path': 'vf/sat.py', 'serves_properties': [p for p in CHECKS if CHECKS[p][1].startswith('A')],
             'kind_free_text': 'compiled-formula validation: real clause lists, all Booleans symbolic, z3 + CryptoMiniSat, '
                               'definability closure for exists-aux'},
            {'name': 'B', 'path': 'vf/xhair.py', 'serves_properties': [p for p in CHECKS if 'B' in CHECKS[p][1]],
             'kind_free_text': 'CrossHair bounded symbolic execution of the real Python with z3'},
            {'name': 'C', 'path': 'vf/exhaust.py', 'serves_properties': [p for p in CHECKS if 'C' in CHECKS[p][1]],
             'kind_free_text': 'library-performed exhaustion image + solver-decided set equality'},
        ],
        'checks': checks,
        'not_applicable': na,
        'notes': 'Exit 3 = harness error (vacuity guard failed or counterexample did not replay); never with a '
                 'VIOLATION line. known_findings.json lists recorded/fixed defects.',
    }
    with open(os.path.join(ROOT, 'MANIFEST.json'), 'w') as fh:
        json.dump(manifest, fh, indent=1)
    print(f'{len(checks)} checks, {len(na)} not_applicable')


if __name__ == '__main__':
    main()
