#!/bin/sh
# usage: tools/run_all.sh <tier> <seed> <jobs> [outdir]   -- runs every registered check, prints one line per check
# (without outdir the evidence files under /verif/evidence are rewritten)
TIER=${1:-quick}; SEED=${2:-0}; JOBS=${3:-3}; OUT=$4
cd "$(dirname "$0")/.."
IDS=$(python3 -c "import json;print(' '.join(c['property_id'] for c in json.load(open('MANIFEST.json'))['checks']))")
LOG=${OUT:-/tmp/run_all_$$}; mkdir -p "$LOG"
export VERIF_SEED=$SEED
[ -n "$OUT" ] && export VERIF_OUT_DIR=$OUT
echo $IDS | tr ' ' '\n' | xargs -P $JOBS -I{} sh -c "VERIF_PROCS=\${VERIF_PROCS:-5} ./check {} --tier $TIER > $LOG/{}.log 2>&1; echo {} rc=\$? \$(tail -1 $LOG/{}.log | cut -c1-220)"
