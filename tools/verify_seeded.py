#!/usr/bin/env python3
"""Confirms candidate breaking changes produced by sub-agents and files the confirmed ones under /verif/seeded/.

For each /tmp/mut-<ID>/patch_<ID>_<x>.diff (third round: /tmp/mut3-<ID>/, x in c, d): in a fresh scratch worktree of /repo HEAD
  1. demo exits 0 on the clean tree,
  2. the patch applies, the package still imports, the demo exits 1,
  3. the full test suite passes with the patch (same pass count as the baseline).
Only then is it kept as /verif/seeded/<ID>_<x>/{patch.diff,demo.py,meta.json}.  Worktrees are removed afterwards.
usage: verify_seeded.py [ID ...]
"""
import glob
import json
import os
import re
import shutil
import subprocess
import sys
from concurrent.futures import ThreadPoolExecutor

ROOT = os.path.dirname(os.path.dirname(os.path.abspath(__file__)))
PY = '/venv/bin/python'


def sh(cmd, cwd=None, env=None, timeout=1500):
    e = dict(os.environ)
    e.update(env or {})
    p = subprocess.run(cmd, shell=True, cwd=cwd, env=e, capture_output=True, text=True, timeout=timeout)
    return p.returncode, (p.stdout + p.stderr)


def verify(patch):
    m = re.search(r'patch_(C\d+)_(\w+)\.diff$', patch)
    pid, x = m.group(1), m.group(2)
    src = os.path.dirname(patch)
    demo = os.path.join(src, f'demo_{pid}_{x}.py')
    meta_in = os.path.join(src, f'meta_{pid}_{x}.json')
    wt = f'/tmp/vs-{pid}-{x}'
    res = {'id': f'{pid}_{x}', 'property': pid}
    sh(f'git -C /repo worktree remove --force {wt}')
    rc, out = sh(f'git -C /repo worktree add -q --detach {wt} HEAD')
    if rc:
        res['error'] = out[-300:]
        return res
    env = {'PYTHONPATH': wt, 'PYTHONDONTWRITEBYTECODE': '1'}
    try:
        shutil.copy(demo, os.path.join(wt, 'demo.py'))
        rc, out = sh(f'{PY} -W ignore demo.py', cwd=wt, env=env, timeout=900)
        res['demo_clean_exit'] = rc
        rc, out = sh(f'git apply {patch}', cwd=wt)
        if rc:
            rc, out = sh(f'git apply -3 {patch}', cwd=wt)
        res['applies'] = (rc == 0)
        if rc:
            res['error'] = out[-300:]
            return res
        rc, out = sh(f'{PY} -W ignore -c "import sweetpea"', cwd=wt, env=env)
        res['imports'] = (rc == 0)
        rc, out = sh(f'{PY} -W ignore demo.py', cwd=wt, env=env, timeout=900)
        res['demo_patched_exit'] = rc
        res['demo_patched_tail'] = out[-400:]
        rc, out = sh(f'{PY} -m pytest -q -p no:cacheprovider --timeout=900 -x 2>&1 | tail -3', cwd=wt, env=env, timeout=2400)
        mm = re.search(r'(\d+) passed', out)
        res['tests_passed'] = int(mm.group(1)) if mm else 0
        res['tests_failed'] = bool(re.search(r'\d+ (failed|error)', out))
        _, diff = sh('git diff -- sweetpea', cwd=wt)
        ok = (res['demo_clean_exit'] == 0 and res['demo_patched_exit'] == 1 and res['imports']
              and res['tests_passed'] >= 811 and not res['tests_failed'])
        res['confirmed'] = ok
        if ok:
            dst = os.path.join(ROOT, 'seeded', f'{pid}_{x}')
            os.makedirs(dst, exist_ok=True)
            with open(os.path.join(dst, 'patch.diff'), 'w') as fh:
                fh.write(diff)
            shutil.copy(demo, os.path.join(dst, 'demo.py'))
            meta = {}
            try:
                meta = json.load(open(meta_in))
            except Exception:
                pass
            keep = {'property': pid, 'breaks': pid, 'summary': meta.get('summary'), 'needs': meta.get('needs'),
                    'files_touched': meta.get('files_touched'),
                    'confirmed_by_me': {
                        'base_commit': sh('git -C /repo rev-parse --short HEAD')[1].strip(),
                        'demo_exit_on_clean_tree': res['demo_clean_exit'],
                        'demo_exit_with_patch': res['demo_patched_exit'],
                        'test_suite_with_patch': f"{res['tests_passed']} passed, no failures",
                        'how': 'tools/verify_seeded.py in a scratch worktree of /repo HEAD (PYTHONPATH=<worktree>)'},
                    'detected_by': None}
            with open(os.path.join(dst, 'meta.json'), 'w') as fh:
                json.dump(keep, fh, indent=1)
    finally:
        sh(f'git -C /repo worktree remove --force {wt}')
    return res


def main():
    ids = sys.argv[1:]
    patches = sorted(glob.glob('/tmp/mut-C*/patch_C*_*.diff') + glob.glob('/tmp/mut3-C*/patch_C*_*.diff'))
    if ids:
        patches = [p for p in patches if any(f'patch_{i}_' in p for i in ids)]
    with ThreadPoolExecutor(10) as ex:
        for res in ex.map(verify, patches):
            print(json.dumps({k: v for k, v in res.items() if k != 'demo_patched_tail'}))
            sys.stdout.flush()


if __name__ == '__main__':
    main()
