#!/usr/bin/env python3
"""Runs checks against the seeded breaking changes: apply seeded/<id>/patch.diff to /repo, run the checks, undo.

usage: run_seeded.py [--tier quick] [--checks C01,C02] [ID_prefix ...]
Default checks per mutation: the property it breaks, plus any listed in ALSO.  Results go to seeded/<id>/meta.json
('detected_by') and seeded/RESULTS.json.  /repo is restored (git checkout -- .) after every mutation, also on error.
"""
import json
import os
import subprocess
import sys
import time

ROOT = os.path.dirname(os.path.dirname(os.path.abspath(__file__)))
ALSO = {
    'C04': ['C05', 'C06', 'C07'], 'C05': ['C04', 'C06', 'C07'], 'C06': ['C05', 'C04', 'C09'], 'C07': ['C04', 'C05'],
    'C09': ['C05', 'C06'], 'C01': ['C02', 'C27'], 'C02': ['C01', 'C23'], 'C23': ['C01', 'C02'], 'C25': ['C04', 'C01'],
    'C08': ['C04'], 'C16': ['C01', 'C18'], 'C18': ['C24', 'C16'], 'C24': ['C18'], 'C26': ['C01', 'C02'],
    'C14': ['C01'], 'C15': ['C01', 'C20'], 'C27': ['C03', 'C01'], 'C20': ['C19'], 'C17': [], 'C03': ['C11'],
}


def sh(cmd, timeout=3600):
    p = subprocess.run(cmd, shell=True, capture_output=True, text=True, timeout=timeout)
    return p.returncode, p.stdout + p.stderr


def main():
    args = sys.argv[1:]
    tier = 'quick'
    only_checks = None
    ids = []
    while args:
        a = args.pop(0)
        if a == '--tier':
            tier = args.pop(0)
        elif a == '--in-repo':
            pass
        elif a == '--checks':
            only_checks = args.pop(0).split(',')
        else:
            ids.append(a)
    manifest = json.load(open(os.path.join(ROOT, 'MANIFEST.json')))
    available = {c['property_id'] for c in manifest['checks']}
    # The patch is applied in a scratch worktree of /repo HEAD and the checks import it through PYTHONPATH (the same
    # code path as running against /repo itself, without disturbing other runs); --in-repo applies it to /repo instead.
    in_repo = '--in-repo' in sys.argv
    target = '/repo' if in_repo else f'/tmp/seedwt-{os.getpid()}'
    if in_repo:
        rc, out = sh('git -C /repo status --porcelain')
        if out.strip():
            print('refusing: /repo has uncommitted changes:\n' + out)
            return 2
    else:
        sh(f'git -C /repo worktree add -q --detach {target} HEAD')
    envp = f'VERIF_OUT_DIR=/tmp/seedout-{os.getpid()} ' + ('' if in_repo else f'PYTHONPATH={target} ')
    results_path = os.path.join(ROOT, 'seeded', 'RESULTS.json')
    results = json.load(open(results_path)) if os.path.exists(results_path) else {}
    for d in sorted(os.listdir(os.path.join(ROOT, 'seeded'))):
        full = os.path.join(ROOT, 'seeded', d)
        if not os.path.isdir(full) or (ids and not any(d.startswith(i) for i in ids)):
            continue
        meta = json.load(open(os.path.join(full, 'meta.json')))
        pid = meta['property']
        checks = only_checks or ([pid] + ALSO.get(pid, []))
        checks = [c for c in checks if c in available]
        rc, out = sh(f'git -C {target} apply {full}/patch.diff')
        if rc:
            rc, out = sh(f'git -C {target} apply -3 {full}/patch.diff')
        if rc:
            print(f'{d}: patch does not apply: {out[-200:]}')
            sh(f'git -C {target} checkout -- . && git -C {target} reset -q')
            results.setdefault(d, {})['applies'] = False
            continue
        try:
            for c in checks:
                t = time.time()
                rc, out = sh(f'cd {ROOT} && {envp}timeout 3000 ./check {c} --tier {tier}')
                viol = [l for l in out.splitlines() if l.startswith('VIOLATION')]
                keys = [l.strip()[:160] for l in out.splitlines() if l.startswith('  key=')][:3]
                verdict = 'DETECTED' if (rc == 1 and viol) else ('harness-error' if rc == 3 else ('missed' if rc == 0 else f'rc={rc}'))
                results.setdefault(d, {})[f'{c}:{tier}'] = {'verdict': verdict, 'violations': len(viol), 'first': keys,
                                                            'seconds': round(time.time() - t, 1)}
                print(f'{d} {c}:{tier} -> {verdict} ({len(viol)} violations, {time.time() - t:.0f}s) {keys[:1]}')
                sys.stdout.flush()
        finally:
            sh(f'git -C {target} checkout -- . && git -C {target} reset -q')
        det = sorted(k for k, v in results.get(d, {}).items() if isinstance(v, dict) and v.get('verdict') == 'DETECTED')
        meta['detected_by'] = det
        meta['runs'] = {k: v.get('verdict') for k, v in results[d].items() if isinstance(v, dict)}
        with open(os.path.join(full, 'meta.json'), 'w') as fh:
            json.dump(meta, fh, indent=1)
        with open(results_path, 'w') as fh:
            json.dump(results, fh, indent=1, sort_keys=True)
    sh(f'rm -rf /tmp/seedout-{os.getpid()}')
    if not in_repo:
        sh(f'git -C /repo worktree remove --force {target}')
    rc, out = sh('git -C /repo status --porcelain')
    if out.strip():
        print('WARNING: /repo not clean after run:\n' + out)
    return 0


if __name__ == '__main__':
    sys.exit(main())
