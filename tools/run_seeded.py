#!/usr/bin/env python3
"""Runs checks against the seeded breaking changes.

Each seeded/<id>/patch.diff is applied in a scratch worktree of /repo HEAD and the checks import that tree through
PYTHONPATH (same code path as running against /repo; evidence/replays are redirected with VERIF_OUT_DIR so that the
committed evidence always comes from /repo itself).  `--in-repo` applies the patch to /repo instead (git apply, run,
git checkout -- .).  Results: seeded/<id>/meta.json ('detected_by', 'runs') and seeded/RESULTS.json.

usage: run_seeded.py [--tier quick] [--checks C01,C02] [--jobs 2] [--in-repo] [ID_prefix ...]
"""
import json
import os
import subprocess
import sys
import threading
import time
from concurrent.futures import ThreadPoolExecutor

ROOT = os.path.dirname(os.path.dirname(os.path.abspath(__file__)))
ALSO = {
    'C01': ['C02', 'C03', 'C27'], 'C02': ['C01', 'C23'], 'C03': ['C11', 'C02'], 'C04': ['C05', 'C07'], 'C05': ['C04', 'C06'],
    'C06': ['C05', 'C09'], 'C07': ['C04', 'C05'], 'C08': ['C04'], 'C09': ['C05', 'C06'], 'C14': ['C01'], 'C15': ['C01', 'C20'],
    'C16': ['C01', 'C18'], 'C17': ['C04'], 'C18': ['C24', 'C16'], 'C19': ['C09'], 'C20': ['C19'], 'C23': ['C01', 'C02'],
    'C24': ['C18'], 'C25': ['C04', 'C01'], 'C26': ['C01', 'C02'], 'C27': ['C03', 'C01'],
}
LOCK = threading.Lock()


def sh(cmd, timeout=4000):
    p = subprocess.run(cmd, shell=True, capture_output=True, text=True, timeout=timeout)
    return p.returncode, p.stdout + p.stderr


def main():
    args = sys.argv[1:]
    tier, only_checks, ids, jobs, in_repo = 'quick', None, [], 2, False
    while args:
        a = args.pop(0)
        if a == '--tier':
            tier = args.pop(0)
        elif a == '--checks':
            only_checks = args.pop(0).split(',')
        elif a == '--jobs':
            jobs = int(args.pop(0))
        elif a == '--in-repo':
            in_repo, jobs = True, 1
        else:
            ids.append(a)
    manifest = json.load(open(os.path.join(ROOT, 'MANIFEST.json')))
    available = {c['property_id'] for c in manifest['checks']}
    results_path = os.path.join(ROOT, 'seeded', 'RESULTS.json')
    results = json.load(open(results_path)) if os.path.exists(results_path) else {}
    muts = [d for d in sorted(os.listdir(os.path.join(ROOT, 'seeded')))
            if os.path.isdir(os.path.join(ROOT, 'seeded', d)) and (not ids or any(d.startswith(i) for i in ids))]
    head = sh('git -C /repo rev-parse --short HEAD')[1].strip()
    if in_repo and sh('git -C /repo status --porcelain')[1].strip():
        print('refusing: /repo has uncommitted changes')
        return 2

    def work(slot_muts):
        slot, todo = slot_muts
        target = '/repo' if in_repo else f'/tmp/seedwt-{os.getpid()}-{slot}'
        outdir = f'/tmp/seedout-{os.getpid()}-{slot}'
        if not in_repo:
            sh(f'git -C /repo worktree add -q --detach {target} HEAD')
        envp = f'VERIF_OUT_DIR={outdir} VERIF_PROCS={max(4, 14 // jobs)} ' + ('' if in_repo else f'PYTHONPATH={target} ')
        for d in todo:
            full = os.path.join(ROOT, 'seeded', d)
            meta = json.load(open(os.path.join(full, 'meta.json')))
            pid = meta['property']
            checks = [c for c in (only_checks or ([pid] + ALSO.get(pid, []))) if c in available]
            rc, out = sh(f'git -C {target} apply {full}/patch.diff')
            if rc:
                rc, out = sh(f'git -C {target} apply -3 {full}/patch.diff')
            if rc:
                sh(f'git -C {target} checkout -- . ; git -C {target} reset -q')
                with LOCK:
                    results.setdefault(d, {})['applies_at_' + head] = False
                    print(f'{d}: patch no longer applies at {head}')
                continue
            try:
                for c in checks:
                    t = time.time()
                    rc, out = sh(f'cd {ROOT} && {envp}timeout 3600 ./check {c} --tier {tier}')
                    viol = [l for l in out.splitlines() if l.startswith('VIOLATION')]
                    keys = [l.strip()[:200] for l in out.splitlines() if l.startswith('  key=')][:2]
                    inc = sum(1 for l in out.splitlines() if l.startswith('INCONCLUSIVE'))
                    verdict = 'DETECTED' if (rc == 1 and viol) else ('harness-error' if rc == 3 else ('missed' if rc == 0 else f'rc={rc}'))
                    with LOCK:
                        results.setdefault(d, {})[f'{c}:{tier}'] = {'verdict': verdict, 'violations': len(viol), 'first': keys,
                                                                    'inconclusive': inc, 'seconds': round(time.time() - t, 1),
                                                                    'repo_head': head}
                        print(f'{d} {c}:{tier} -> {verdict} ({len(viol)} violations, {inc} inconclusive, {time.time() - t:.0f}s) {keys[:1]}')
                        sys.stdout.flush()
            finally:
                sh(f'git -C {target} checkout -- . ; git -C {target} reset -q')
            with LOCK:
                det = sorted(k for k, v in results.get(d, {}).items() if isinstance(v, dict) and v.get('verdict') == 'DETECTED')
                meta['detected_by'] = det
                meta['runs'] = {k: v.get('verdict') for k, v in results[d].items() if isinstance(v, dict)}
                with open(os.path.join(full, 'meta.json'), 'w') as fh:
                    json.dump(meta, fh, indent=1)
                with open(results_path, 'w') as fh:
                    json.dump(results, fh, indent=1, sort_keys=True)
        sh(f'rm -rf {outdir}')
        if not in_repo:
            sh(f'git -C /repo worktree remove --force {target}')
    slots = [(i, muts[i::jobs]) for i in range(jobs)]
    with ThreadPoolExecutor(jobs) as ex:
        list(ex.map(work, slots))
    sh('git -C /repo worktree prune')
    if sh('git -C /repo status --porcelain')[1].strip():
        print('WARNING: /repo not clean after run')
    return 0


if __name__ == '__main__':
    sys.exit(main())
