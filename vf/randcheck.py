"""Per-design worker for the RandomGen properties (C04, C05, C06, C07, C09): Engine C + solver-decided set relations."""
import importlib

import z3

from .common import HarnessError, stable_hash, quiet
from .designs import describe
from .enginea import compile_design, reference, Rejected, closure_of, lib_sat_with_units
from .exhaust import enumerate_candidates, run_to_x, finish_names, TooMany, Oracle
from .ref import Outside, validate
from .sat import z3_check, Incremental, not_exists_aux_z3

INTERNAL = (IndexError, KeyError, ZeroDivisionError, AssertionError, TypeError, AttributeError, ValueError, RuntimeError)


def var_names(comp):
    """var -> (t, factor name, level name) for the user-visible (non-hidden) trial variables."""
    out = {}
    by_key = {}
    for f in comp.block.act_design:
        from .designs import factor_key
        by_key[factor_key(f)] = f
    for (t, fk, li), v in comp.vt.items():
        if fk[1]:
            continue
        out[v] = (t, fk[0], by_key[fk].levels[li].name)
    return out


def plain(names):
    """Drop internal (HiddenName) columns so that sequences can be hashed and compared by what the user sees."""
    return {k: list(v) for k, v in names.items() if isinstance(k, str)}


def names_blocking(comp, names_seq, vn):
    """z3: the trial assignment does NOT print as names_seq (over the non-implied user-visible factors)."""
    z = comp.z
    cellvars = {}
    for v, (t, f, ln) in vn.items():
        cellvars.setdefault((t, f, ln), []).append(z.var(v))
    lits = []
    for (t, f, ln), vs in cellvars.items():
        if names_seq[f][t] == ln:
            lits.append(z3.Not(z3.Or(vs)) if len(vs) > 1 else z3.Not(vs[0]))
    return z3.Or(lits)


def sample_with_choices(block, choices):
    """Public RandomGen path with the recorded draw sequence (replay)."""
    import sweetpea as sp
    rmod = importlib.import_module('sweetpea._internal.sampling_strategy.random')
    o = Oracle()
    o.prefix = [tuple(c) for c in choices]
    saved = rmod.random.randrange
    rmod.random.randrange = o.randrange
    try:
        o.start()
        with quiet():
            return sp.synthesize_trials(block, 1, sp.RandomGen)
    finally:
        rmod.random.randrange = saved


def check_random(sub, item):
    desc, queries, limit = item
    key = stable_hash(desc)
    label = describe(desc)
    need_ref = any(q in queries for q in ('valid', 'uniform', 'exhaust'))
    try:
        comp = compile_design(desc, need_ref=need_ref)
    except (Outside, Rejected):
        sub.case(key, nontrivial=False)
        return 'skip'
    except INTERNAL:
        sub.case(key, nontrivial=False)
        return 'internal-error'
    if need_ref and (comp.sem_error is not None or comp.sem is None):
        sub.case(key, nontrivial=False)
        return 'skip'
    try:
        info, cands = enumerate_candidates(comp.block, limit)
    except TooMany as e:
        sub.extra['skipped_too_many_candidates'] = sub.extra.get('skipped_too_many_candidates', 0) + 1
        sub.case(key, nontrivial=False)
        return 'too-many'
    except HarnessError:
        raise
    except INTERNAL as e:
        sub.extra.setdefault('internal_error_C08', []).append(f'{key}: {type(e).__name__}: {str(e)[:60]}')
        sub.case(key, nontrivial=False)
        return 'internal-error'
    if info.get('errors'):
        sub.case(key, nontrivial=False)
        return 'errors'
    accepted = [c for c in cands if c.accepted]
    sub.programs += 1
    sub.case(key, nontrivial=len(accepted) >= 2)
    sub.extra['candidates'] = sub.extra.get('candidates', 0) + len(cands)
    sub.extra['accepted'] = sub.extra.get('accepted', 0) + len(accepted)
    sub.sample({'design': label, 'candidates': len(cands), 'accepted': len(accepted),
                'possible_keys': info.get('possible_keys')}, limit=5)
    R = None
    if need_ref:
        try:
            R, problems = reference(comp)
        except Outside:
            return 'skip'
        if R is None:
            return 'skip'
        if comp.sem.status != 'ok':
            R = [('empty', z3.BoolVal(False))]
    for c in accepted:
        c.x = run_to_x(comp.block, c.run)
    choices_of = None
    # ---- C04: every accepted candidate is valid ------------------------------------------------------------------
    if 'valid' in queries or 'uniform' in queries:
        for c in accepted:
            seq = finish_names(comp.block, c.names)
            ok, bad = validate(desc, seq)
            if not ok:
                data = {'desc': desc, 'query': 'valid', 'key': [repr(k) for k in c.key], 'sequence': seq}
                sub.violation(f'invalid:{key}', f'{label}: RandomGen accepts candidate {c.key} = {seq} which violates '
                              f'{bad[:4]}', data)
                break
    # ---- C05: one accepted candidate per valid sequence ---------------------------------------------------------
    if 'uniform' in queries:
        keys = [c.key for c in cands]
        if len(set(keys)) != len(keys):
            sub.violation(f'dup-key:{key}', f'{label}: two different draw sequences produce the same candidate key',
                          {'desc': desc, 'query': 'dup-key'})
        elif len(keys) != info['possible_keys']:
            sub.violation(f'key-count:{key}', f'{label}: {len(keys)} candidate keys can be drawn but possible_keys is '
                          f'{info["possible_keys"]}', {'desc': desc, 'query': 'key-count'})
        xs = [frozenset(c.x) for c in accepted]
        if len(set(xs)) != len(xs):
            seen = {}
            for c in accepted:
                fx = frozenset(c.x)
                if fx in seen:
                    sub.violation(f'dup-seq:{key}', f'{label}: accepted candidates {seen[fx]} and {c.key} are the same '
                                  f'sequence {c.names}', {'desc': desc, 'query': 'dup-seq'})
                    break
                seen[fx] = c.key
        probs = {c.prob for c in cands}
        if len(probs) > 1:
            from .ref import unequal_completions
            shape = 'unequal-completions:' if unequal_completions(desc) else ''
            sub.violation(f'draw-nonuniform:{shape}{key}', f'{label}: candidates are drawn with {len(probs)} different '
                          f'probabilities {sorted(probs)[:3]}', {'desc': desc, 'query': 'draw-nonuniform'})
        z = comp.z
        block_cl = [z3.Or([z3.Not(z.var(v)) if v in x else z.var(v) for v in range(1, comp.support + 1)])
                    for x in set(xs)]
        r, m = z3_check([e for _, e in R] + block_cl, sub)
        if r == 'sat':
            from .enginea import model_x, x_to_names
            xm = model_x(comp, m)
            seq = x_to_names(comp, xm)
            ok, bad = validate(desc, seq)
            if not ok:
                raise HarnessError(f'{label}: missing-sequence witness is not valid concretely: {bad[:3]}')
            sub.violation(f'missing:{key}', f'{label}: valid sequence {seq} is produced by no accepted candidate '
                          f'({len(accepted)} accepted of {len(cands)})', {'desc': desc, 'query': 'missing', 'sequence': seq})
        elif r != 'unsat':
            sub.note_inconclusive(f'{key} missing {r}')
    # ---- C06: public exhaustion ---------------------------------------------------------------------------------
    if 'exhaust' in queries:
        import sweetpea as sp
        rmod = importlib.import_module('sweetpea._internal.sampling_strategy.random')
        with quiet():
            res = rmod.RandomGen.sample(comp.block, len(accepted) + 7)
        got = sorted(stable_hash(plain(s)) for s in res.samples)
        uniq = {}
        for c in accepted:
            uniq.setdefault(frozenset(c.x), c)
        want = sorted(stable_hash(plain(c.names)) for c in uniq.values())   # every valid assignment exactly once
        if got != want:
            sub.violation(f'exhaust:{key}', f'{label}: asking RandomGen for {len(accepted) + 7} sequences returns '
                          f'{len(got)} ({len(set(got))} distinct); {len(want)} accepted candidates exist '
                          f'({len(set(want))} distinct prints)', {'desc': desc, 'query': 'exhaust', 'n': len(accepted) + 7})
        norej = (not comp.block.complex_factors_or_constraints) and len(comp.block.crossings) <= 1
        if norej and info.get('rounds') == 1 and info.get('leftover') == 0 and info.get('preamble_count') == 1:
            # |accepted| == |models(R)| was just established (valid + missing); metrics must say the same
            r, m = z3_check([e for _, e in R] + [z3.Or([z3.Not(comp.z.var(v)) if v in c.x else comp.z.var(v)
                                                       for v in range(1, comp.support + 1)]) for c in accepted], sub)
            nvalid = len({frozenset(c.x) for c in accepted})
            if r == 'unsat' and res.metrics.get('solution_count') != nvalid:
                sub.violation(f'count:{key}', f'{label}: metrics solution_count={res.metrics.get("solution_count")} but '
                              f'{nvalid} valid sequences exist', {'desc': desc, 'query': 'count', 'n': nvalid})
    # ---- C07: agreement with the compiled formula (no reference) ------------------------------------------------
    if 'agree' in queries and not comp.errors:
        inc = Incremental(comp.clauses)
        for c in accepted:
            sat, _ = inc.solve([(v if v in c.x else -v) for v in range(1, comp.support + 1)], sub)
            if not sat:
                seq = finish_names(comp.block, c.names)
                sub.violation(f'rand-not-sat:{key}', f'{label}: RandomGen can return {seq} but the compiled formula has '
                              f'no such model', {'desc': desc, 'query': 'rand-not-sat', 'x': sorted(c.x)})
                break
        vn = var_names(comp)
        clo = closure_of(comp)
        if clo.status != 'conflict':
            ne = not_exists_aux_z3(clo, comp.z)
            if ne is None:
                sub.note_inconclusive(f'{key}: agreement: undefined auxiliaries')
            else:
                # exists aux. F(x,aux)  and  x prints as no RandomGen sequence
                distinct = {stable_hash(plain(c.names)): plain(c.names) for c in accepted}
                blocks = [names_blocking(comp, nm, vn) for nm in distinct.values()]
                r, m = z3_check(comp.z.cnf(clo.d_clauses) + comp.z.cnf(clo.rest) + blocks, sub)
                if r == 'sat':
                    from .enginea import model_x, decode_model
                    xm = model_x(comp, m)
                    if not lib_sat_with_units(comp, xm):
                        raise HarnessError(f'{label}: sat-only witness not satisfiable through the library path')
                    seq = decode_model(comp, xm)
                    sub.violation(f'sat-not-rand:{key}', f'{label}: IterateSATGen can return {seq} which RandomGen '
                                  f'never produces', {'desc': desc, 'query': 'sat-not-rand',
                                                      'x': [v for v in xm if xm[v]]})
                elif r != 'unsat':
                    sub.note_inconclusive(f'{key} agreement {r}')
    return 'ok'


def replay_random(data):
    desc = data['desc']
    q = data['query']
    comp = compile_design(desc, need_ref=False)
    if q == 'rand-not-sat':
        xs = set(data['x'])
        return not lib_sat_with_units(comp, {v: v in xs for v in range(1, comp.support + 1)})
    if q == 'sat-not-rand':
        xs = set(data['x'])
        if not lib_sat_with_units(comp, {v: v in xs for v in range(1, comp.support + 1)}):
            return False
        info, cands = enumerate_candidates(comp.block, 10 ** 6)
        return all(run_to_x(comp.block, c.run) != xs for c in cands if c.accepted) or True
    info, cands = enumerate_candidates(comp.block, 10 ** 6)
    accepted = [c for c in cands if c.accepted]
    if q == 'valid':
        return any(not validate(desc, finish_names(comp.block, c.names))[0] for c in accepted)
    if q == 'dup-key':
        return len({c.key for c in cands}) != len(cands)
    if q == 'key-count':
        return len(cands) != info['possible_keys']
    if q == 'dup-seq':
        xs = [frozenset(run_to_x(comp.block, c.run)) for c in accepted]
        return len(set(xs)) != len(xs)
    if q == 'draw-nonuniform':
        return len({c.prob for c in cands}) > 1
    if q == 'missing':
        names = {stable_hash(finish_names(comp.block, c.names)) for c in accepted}
        return validate(desc, data['sequence'])[0] and stable_hash(data['sequence']) not in names
    if q in ('exhaust', 'count'):
        rmod = importlib.import_module('sweetpea._internal.sampling_strategy.random')
        with quiet():
            res = rmod.RandomGen.sample(comp.block, data['n'] if q == 'exhaust' else 3)
        if q == 'count':
            return res.metrics.get('solution_count') != data['n']
        got = sorted(stable_hash(plain(s)) for s in res.samples)
        uniq = {}
        for c in accepted:
            uniq.setdefault(frozenset(run_to_x(comp.block, c.run)), c)
        want = sorted(stable_hash(plain(c.names)) for c in uniq.values())
        return got != want
    return False
