"""Reference semantics R: "valid for the design as documented", computed from the descriptor alone.

analyse(desc) evaluates the documented trial-count / crossing / scope arithmetic (docs/_source/api/*.rst) without
looking at any library geometry.  formula(sem, cellfn) produces z3 constraints over a cell accessor
cellfn(factor_name, t, slot) -> z3 Bool; with the real variable table the cells are the compiled formula's own
trial variables, with a concrete sequence they are constants (the concrete validator is the same rule set).
"""
import itertools
import math

import z3

from .designs import window_of, pred_holds

RUNLEN = ('AtMostKInARow', 'AtLeastKInARow', 'ExactlyKInARow', 'ExactlyK')


class Refused(Exception):
    """The documented rules say the constructor must refuse this design."""


class Outside(Exception):
    """The design is outside what the reference semantics is willing to judge (documentation silent/ambiguous)."""


class RF:
    def __init__(self, fs):
        self.name = fs['name']
        self.derived = 'window' in fs
        if not self.derived:
            self.level_names = [l[0] if isinstance(l, (list, tuple)) else l for l in fs['levels']]
            self.weights = [l[1] if isinstance(l, (list, tuple)) else 1 for l in fs['levels']]
            self.window = None
            self.start, self.stride, self.width = 0, 1, 1
            self.complex = False
        else:
            self.level_names = [l['name'] for l in fs['levels']]
            self.weights = [l.get('weight', 1) for l in fs['levels']]
            self.window = window_of(fs)
            self.preds = [None if l.get('else') else l['pred'] for l in fs['levels']]
            self.width, self.stride = self.window['width'], self.window['stride']
        self.expanded = False
        self.slots = list(range(len(self.level_names)))   # slot -> level index

    def finish(self, factors):
        if not self.derived:
            return
        default = self.width - 1
        for s in self.window['factors']:
            sf = factors[s]
            ready = (sf.start if (sf.derived and sf.complex) else 0) + self.width - 1
            default = max(default, ready)
        st = self.window.get('start')
        self.start = default if st is None else st
        first = factors[self.window['factors'][0]]
        self.complex = self.width > 1 or self.stride > 1 or self.start > 0 or (first.derived and first.complex)

    def applies(self, step):
        """step: 0-based index in units of this factor's sustain."""
        return step >= self.start and (step - self.start) % self.stride == 0

    def slot_name(self, slot):
        return self.level_names[self.slots[slot]]

    def accepts(self, li, cargs):
        """Does level li accept canonical window arguments?"""
        if self.preds[li] is None:
            return not any(self.preds[j] is not None and pred_holds(self.preds[j], cargs, self.width)
                           for j in range(len(self.preds)))
        return pred_holds(self.preds[li], cargs, self.width)


class Sem:
    pass


# ---------------------------------------------------------------------------------------------------------------------
# analysis: trial count, crossings, scopes
# ---------------------------------------------------------------------------------------------------------------------

def analyse(desc, expand=True):
    factors = {}
    for fs in desc['factors']:
        rf = RF(fs)
        factors[rf.name] = rf
        rf.finish(factors)
    sem = Sem()
    sem.factors = factors
    sem.desc = desc
    b = _eval_block(desc['block'], factors, top=True)
    sem.__dict__.update(b)
    crossed = {f for c in sem.crossings for f in c['factors']}
    sem.hidden = []
    for name in sem.design:
        rf = factors[name]
        if not rf.derived and any(w > 1 for w in rf.weights):
            in_all = all(name in c['factors'] for c in sem.crossings) and sem.crossings
            if name not in crossed:
                if expand:
                    rf.expanded = True
                    rf.slots = [i for i, w in enumerate(rf.weights) for _ in range(w)]
                    sem.hidden.append(name)
            elif not in_all:
                raise Outside(f'weighted factor {name} is in some but not all crossings')
    return sem


def _single_trial_feasible(design, factors, excludes):
    """All single-trial assignments {factor: level index} over the non-complex part of the design that hit no
    Exclude; within-trial derived factors are evaluated (in design order of dependency)."""
    basics = [n for n in design if not factors[n].derived]
    within = [n for n in design if factors[n].derived and not factors[n].complex]
    out = []
    for combo in itertools.product(*[range(len(factors[n].level_names)) for n in basics]):
        asg = dict(zip(basics, combo))
        ok = True
        pending = list(within)
        progress = True
        while pending and progress:
            progress = False
            for n in list(pending):
                rf = factors[n]
                if all(s in asg for s in rf.window['factors']):
                    cargs = tuple(factors[s].level_names[asg[s]] for s in rf.window['factors'])
                    hits = [li for li in range(len(rf.level_names)) if rf.accepts(li, cargs)]
                    if len(hits) != 1:
                        ok = False
                    else:
                        asg[n] = hits[0]
                    pending.remove(n)
                    progress = True
        if not ok:
            continue
        if any(asg.get(f) == factors[f].level_names.index(l) for f, l in excludes if f in asg):
            continue
        out.append(asg)
    return out


def _crossing_combos(cr, design, factors, excludes, rcc):
    """Allowed combinations (tuples of level indices) of a crossing and their weights."""
    feas = _single_trial_feasible(design, factors, excludes)
    simple = [f for f in cr if not factors[f].complex]
    cplx = [f for f in cr if factors[f].complex]
    simple_combos = sorted({tuple(a[f] for f in simple) for a in feas})
    # "Exclude constraints can exclude levels of a crossed factor ... combinations involving the factor are removed" and
    # "a derived-factor definition implicitly excludes certain combinations": neither sentence covers an Exclude on a
    # BASIC factor OUTSIDE the crossing that leaves a crossed derived level without any source; the documentation does
    # not say whether the crossing shrinks then
    outside_basic = [(f, l) for f, l in excludes if not factors[f].derived and f not in cr]
    if outside_basic:
        feas2 = _single_trial_feasible(design, factors, [e for e in excludes if e not in outside_basic])
        if sorted({tuple(a[f] for f in simple) for a in feas2}) != simple_combos:
            raise Outside('an Exclude on a basic factor outside the crossing makes a crossing combination unreachable')
    excl = {(f, l) for f, l in excludes}
    cplx_levels = [[li for li, ln in enumerate(factors[f].level_names) if (f, ln) not in excl] for f in cplx]
    full = 1
    for f in cr:
        full *= len(factors[f].level_names)
    combos = []
    for sc in simple_combos:
        for cc in itertools.product(*cplx_levels):
            d = dict(zip(simple, sc))
            d.update(dict(zip(cplx, cc)))
            tup = tuple(d[f] for f in cr)
            w = 1
            for f in cr:
                w *= factors[f].weights[d[f]]
            combos.append((tup, w))
    complete = len(combos) == full
    return combos, complete


def _min_trials(constraints):
    return max([c[1] for c in constraints if c[0] == 'MinimumTrials'] + [0])


def _leaf(bs, factors):
    kind = bs['kind']
    design = list(bs['design'])
    crs = [list(bs['crossing'])] if kind == 'cross' else [list(c) for c in bs['crossings']]
    crs = [c for c in crs if c]
    cons = [list(c) for c in bs.get('constraints', [])]
    rcc = bs.get('rcc', True)
    mode = 'weight' if kind == 'cross' else bs.get('mode', 'equal')
    alignment = 'equal preamble' if kind == 'cross' else bs.get('alignment', 'equal preamble')
    for c in crs:
        for f in c:
            if f not in design:
                raise Refused(f'crossing factor {f} not in design')
            if factors[f].complex and factors[f].stride > 1:
                raise Refused('stride > 1 in crossing')
    excludes = [(c[1], c[2]) for c in cons if c[0] == 'Exclude']
    status = 'ok'
    crossings = []
    for c in crs:
        combos, complete = _crossing_combos(c, design, factors, excludes, rcc)
        if not complete and rcc:
            status = 'empty'
        size = sum(w for _, w in combos)
        pre = max([factors[f].start for f in c if factors[f].complex] + [0])
        crossings.append({'factors': c, 'sustain': 1, 'cw': 1, 'size': size, 'pre': pre, 'combos': combos})
    if any(cr['size'] == 0 for cr in crossings):
        status = 'empty'
    return _assemble(design, crossings, [(c, None) for c in cons], rcc, mode, alignment, status, factors)


def _assemble(design, crossings, scoped, rcc, mode, alignment, status, factors):
    """Trial count and crossing weights of a (possibly merged) block: documented rules of CrossBlock / Merge."""
    pres = [c['pre'] for c in crossings]
    if alignment == 'equal preamble' and len(set(pres)) > 1:
        raise Refused('EQUAL_PREAMBLE with different preamble sizes')
    mt = _min_trials([c for c, _ in scoped])
    for c in crossings:
        s = c['sustain']
        if mt % s:
            mt = (mt // s + 1) * s
    if alignment == 'post preamble':
        design_pre = max([factors[f].start for f in design if factors[f].derived and factors[f].complex] + [0])
        P = max(pres + [0])
        if design_pre > P:
            raise Outside('POST_PREAMBLE with a window start beyond every crossing preamble')
        need = max([(P + max(c['size'] for c in crossings)) * 1] + [1]) if crossings else 1
        if any(c['sustain'] != 1 for c in crossings):
            raise Outside('POST_PREAMBLE with sustained crossings')
        for c in crossings:
            c['pre_eff'] = P
    else:
        need = max([(c['pre'] + c['size']) * c['sustain'] for c in crossings] + [1])
        for c in crossings:
            c['pre_eff'] = c['pre']
    T = max(mt, need)
    if status == 'ok':
        for c in crossings:
            steps = T // c['sustain'] - c['pre_eff']
            if mode != 'repeat':
                w = max(1, -(-steps // c['size'])) if c['size'] else 1
                own = T // c['sustain'] - c['pre']
                if alignment == 'post preamble' and c['size'] and max(1, -(-own // c['size'])) != w:
                    # "the smallest multiple N such that S * N >= T": with a unified preamble the documentation does
                    # not say whether T counts the trials before the crossing starts
                    raise Outside('POST_PREAMBLE with WEIGHT replication that depends on how the preamble is counted')
                if w != c['cw']:
                    if mode == 'equal':
                        raise Refused('RepeatMode.EQUAL with different crossing sizes')
                    c['cw'] = w
    pre0 = crossings[0]['pre_eff'] * 1 if crossings else 0
    return {'design': design, 'crossings': crossings, 'scoped': scoped, 'rcc': rcc, 'alignment': alignment,
            'status': status, 'T': T, 'geom': (T, pre0 if alignment != 'post preamble' else pre0)}


def _eval_block(bs, factors, top=False):
    kind = bs['kind']
    if kind in ('cross', 'multi'):
        return _leaf(bs, factors)
    if kind == 'repeat':
        return _merge([bs['block']], bs.get('constraints', []), 'repeat', 'equal preamble', factors, repeat=True)
    if kind == 'merge':
        return _merge(bs['blocks'], bs.get('constraints', []), bs.get('mode', 'repeat'), bs.get('alignment'), factors)
    if kind == 'nest':
        return _nest(bs, factors)
    raise ValueError(kind)


def _rescope(inner):
    """Constraints given to a block apply per repetition of that block once it is combined."""
    N, p = inner['geom']
    out = []
    for c, sc in inner['scoped']:
        out.append((c, sc if sc is not None else {'N': N, 'p': p, 'sust': 1}))
    return out


def _merge(blocks, cons, mode, alignment, factors, repeat=False):
    inners = [_eval_block(b, factors) for b in blocks]
    if alignment is None:
        alignment = inners[0]['alignment']
    for i in inners:
        if i['alignment'] != alignment and not repeat:
            raise Refused('blocks have different alignments')
    if any(c[0] == 'Exclude' for c in cons):
        raise Outside('Exclude given to a combinator')
    design = []
    crossings = []
    scoped = []
    status = 'ok'
    for i in inners:
        for f in i['design']:
            if f not in design:
                design.append(f)
        crossings += [dict(c) for c in i['crossings']]
        scoped += _rescope(i)
        if i['status'] != 'ok':
            status = i['status']
    seen = set()
    for c in crossings:
        key = tuple(c['factors'])
    scoped += [(list(c), None) for c in cons]
    return _assemble(design, crossings, scoped, all(i['rcc'] for i in inners), mode, alignment, status, factors)


def _nest(bs, factors):
    outer = _eval_block(bs['outer'], factors)
    inner = _eval_block(bs['inner'], factors)
    oc = {f for c in outer['crossings'] for f in c['factors']}
    ic = {f for c in inner['crossings'] for f in c['factors']}
    if oc & ic:
        raise Refused('factor in crossing of both outer and inner block')
    if any(c['pre'] for c in outer['crossings'] + inner['crossings']):
        raise Outside('Nest of blocks with preamble trials')
    if any(factors[f].derived and factors[f].complex for f in outer['design']):
        raise Outside('window factor in the outer block of a Nest')
    if outer['alignment'] != inner['alignment']:
        raise Outside('Nest with different alignments')
    inner_len = inner['T']
    design = list(outer['design']) + [f for f in inner['design'] if f not in outer['design']]
    crossings = []
    for c in outer['crossings']:
        d = dict(c)
        d['sustain'] = c['sustain'] * inner_len
        crossings.append(d)
    crossings += [dict(c) for c in inner['crossings']]
    scoped = []
    No, po = outer['geom']
    for c, sc in outer['scoped']:
        c = list(c)
        if c[0] == 'MinimumTrials':
            c[1] = c[1] * inner_len
        if c[0] in ('Sequential', 'LatinSquare'):
            scoped.append((c, None))
            continue
        if c[0] in ('AtMostKInARow', 'AtLeastKInARow', 'ExactlyKInARow'):
            raise Outside('run-length constraint on the outer block of a Nest (trials or groups: undocumented)')
        if c[0] != 'MinimumTrials' and c[0] != 'Exclude':
            fname = c[2]
            if fname not in oc:
                raise Outside('outer constraint on a factor that is not crossed in the outer block')
        base = sc if sc is not None else {'N': No, 'p': po, 'sust': 1}
        scoped.append((c, {'N': base['N'] * inner_len, 'p': base['p'] * inner_len, 'sust': base['sust'] * inner_len}))
    scoped += _rescope(inner)
    if any(c[0] == 'Exclude' for c in bs.get('constraints', [])):
        raise Outside('Exclude given to a combinator')
    scoped += [(list(c), None) for c in bs.get('constraints', [])]
    status = 'ok' if outer['status'] == 'ok' and inner['status'] == 'ok' else 'empty'
    return _assemble(design, crossings, scoped, outer['rcc'] and inner['rcc'], 'repeat', outer['alignment'], status,
                     factors)


# ---------------------------------------------------------------------------------------------------------------------
# the formula
# ---------------------------------------------------------------------------------------------------------------------

def sustain_of(sem, fname):
    for c in sem.crossings:
        if fname in c['factors']:
            return c['sustain']
    return 1


class Cells:
    """Cell accessor: cell(f, t, slot) -> z3 Bool.  `var_of(t, fname, slot)` returns a z3 Bool for cells that are
    solver variables (or constants) and None for cells that must be derived from their window."""
    def __init__(self, sem, var_of):
        self.sem = sem
        self.var_of = var_of
        self.memo = {}

    def applies(self, fname, t):
        rf = self.sem.factors[fname]
        return rf.applies(t // sustain_of(self.sem, fname))

    def cell(self, fname, t, slot):
        key = (fname, t, slot)
        if key in self.memo:
            return self.memo[key]
        v = self.var_of(t, fname, slot)
        if v is None:
            v = self.derive(fname, t, slot)
        self.memo[key] = v
        return v

    def name_is(self, fname, t, lname):
        rf = self.sem.factors[fname]
        cs = [self.cell(fname, t, s) for s in range(len(rf.slots)) if rf.slot_name(s) == lname]
        if not cs:
            raise KeyError((fname, lname))
        return cs[0] if len(cs) == 1 else z3.Or(cs)

    def derive(self, fname, t, slot):
        """Level `slot` of derived factor fname at trial t as a function of its window (rule 3)."""
        rf = self.sem.factors[fname]
        if not rf.derived:
            raise Outside(f'no variable for basic factor cell {fname}@{t}')
        sust = sustain_of(self.sem, fname)
        li = rf.slots[slot]
        srcs = rf.window['factors']
        positions = []   # per source, per window offset: trial index or None
        for s in srcs:
            sf = self.sem.factors[s]
            ps = []
            for j in range(rf.width):
                pos = t - (rf.width - 1 - j) * sust
                if pos < 0 or (sf.derived and not self.applies(s, pos)):
                    ps.append(None)
                else:
                    ps.append(pos)
            positions.append(ps)
        choices = []
        for s, ps in zip(srcs, positions):
            sf = self.sem.factors[s]
            for pos in ps:
                choices.append([None] if pos is None else list(range(len(sf.slots))))
        terms = []
        for pick in itertools.product(*choices):
            k = 0
            cargs = []
            conj = []
            for s, ps in zip(srcs, positions):
                sf = self.sem.factors[s]
                vals = []
                for pos in ps:
                    sl = pick[k]
                    k += 1
                    if sl is None:
                        vals.append(None)
                    else:
                        vals.append(sf.slot_name(sl))
                        conj.append(self.cell(s, pos, sl))
                cargs.append(tuple(vals))
            canon = tuple(a[0] for a in cargs) if rf.width == 1 else tuple(cargs)
            if rf.accepts(li, canon):
                terms.append(z3.And(conj) if conj else z3.BoolVal(True))
        return z3.Or(terms) if terms else z3.BoolVal(False)


def windows(sem, scope):
    T = sem.T
    if scope is None:
        return [(0, T, 1)]
    N, p, sust = scope['N'], scope['p'], scope['sust']
    step = N - p
    if step <= 0:
        raise Outside('repetition window without progress')
    start = 0
    if sem.alignment == 'post preamble':
        start = max(c['pre_eff'] for c in sem.crossings) - p if sem.crossings else 0
    out = []
    while start < T - p:
        # a last, partial repetition ends with the trial sequence ("only the first T generated ... will be used")
        out.append((start, min(start + N, T), sust))
        start += step
    return out


def formula(sem, cells):
    """List of (label, z3 Bool). Their conjunction is R."""
    F = sem.factors
    T = sem.T
    out = []
    # rules 2, 3: one level per applicable cell; derived cells follow their window
    for fname in sem.design + [('#hidden', h) for h in sem.hidden]:
        if isinstance(fname, tuple):
            continue
        rf = F[fname]
        for t in range(T):
            if not cells.applies(fname, t):
                continue
            cs = [cells.cell(fname, t, s) for s in range(len(rf.slots))]
            if any(cells.var_of(t, fname, s) is not None for s in range(len(rf.slots))):
                out.append((f'onehot:{fname}@{t}', z3.PbEq([(c, 1) for c in cs], 1)))
                if rf.derived:
                    for s in range(len(rf.slots)):
                        out.append((f'derive:{fname}@{t}', cs[s] == cells.derive(fname, t, s)))
    # sustain (Nest): crossed outer factors constant within each group
    for c in sem.crossings:
        if c['sustain'] > 1:
            for fname in c['factors']:
                rf = F[fname]
                for t in range(T):
                    g = (t // c['sustain']) * c['sustain']
                    if g != t:
                        for s in range(len(rf.slots)):
                            out.append((f'sustain:{fname}@{t}', cells.cell(fname, t, s) == cells.cell(fname, g, s)))
    # rule 4: crossings
    for ci, c in enumerate(sem.crossings):
        s = c['sustain']
        nsteps = T // s - c['pre_eff']
        chunk = c['size'] * c['cw']
        if chunk <= 0:
            out.append((f'cross{ci}:empty', z3.BoolVal(False)))
            continue
        for combo, w in c['combos']:
            m = 0
            while m * chunk < nsteps:
                lo, hi = m * chunk, min((m + 1) * chunk, nsteps)
                occ = []
                for st in range(lo, hi):
                    t = (c['pre_eff'] + st) * s
                    occ.append(z3.And([cells.cell(f, t, li) for f, li in zip(c['factors'], combo)]))
                pairs = [(o, 1) for o in occ]
                if hi - lo == chunk:
                    out.append((f'cross{ci}:{combo}#{m}', z3.PbEq(pairs, w * c['cw'])))
                else:
                    out.append((f'cross{ci}:{combo}#{m}', z3.PbLe(pairs, w * c['cw'])))
                m += 1
    # rules 5, 6: constraints in their scopes
    for c, scope in sem.scoped:
        kind = c[0]
        if kind == 'MinimumTrials':
            continue
        if kind == 'Exclude':
            f, l = c[1], c[2]
            for t in range(T):
                if cells.applies(f, t):
                    out.append((f'Exclude:{f}:{l}@{t}', z3.Not(cells.name_is(f, t, l))))
            continue
        if kind == 'Sequential':
            f = c[1]
            rf = F[f]
            if any(w > 1 for w in rf.weights):
                raise Refused('Sequential with weighted levels')
            s = sustain_of(sem, f)
            pre = 0
            for cr in sem.crossings:
                if f in cr['factors']:
                    pre = cr['pre_eff'] * s
            if scope is not None:
                N, p = scope['N'], scope['p']
                if ((N - p) // scope['sust']) % len(rf.level_names) and len(windows(sem, scope)) > 1:
                    raise Outside('Sequential inside a repeated block whose length is not a multiple of the levels')
            t = pre
            while t < T:
                out.append((f'Sequential:{f}@{t}', cells.cell(f, t, ((t - pre) // s) % len(rf.level_names))))
                t += s
            continue
        if kind == 'LatinSquare':
            out += _latin(sem, cells, c)
            continue
        if kind == 'Pin':
            idx, f, l = c[1], c[2], c[3]
            ws = list(windows(sem, scope))
            full = max(hi - lo for lo, hi, _ in ws)
            for (lo, hi, sust) in ws:
                sf = sustain_of(sem, f) if scope is None else sust
                t = lo + idx * sf if idx >= 0 else hi + idx * sf
                if hi - lo < full and not (lo <= t < hi) and (0 <= idx * sf < full or 0 < -idx * sf <= full):
                    # "If index is not in range for trials in an experiment, then the experiment will have no
                    # satisfying trial sequences": whether a partial last repetition counts as such an experiment is
                    # not documented
                    raise Outside('Pin index beyond a partial last repetition window')
                if not (lo <= t < hi) or not cells.applies(f, t):
                    out.append((f'Pin:{idx}:{f}:{l}', z3.BoolVal(False)))
                else:
                    out.append((f'Pin:{idx}:{f}:{l}@{t}', cells.name_is(f, t, l)))
            continue
        if kind in RUNLEN:
            k, f, l = c[1], c[2], c[3]
            rf = F[f]
            lnames = [l] if l is not None else list(dict.fromkeys(rf.level_names))
            for (lo, hi, sust) in windows(sem, scope):
                sf = sustain_of(sem, f)
                ts = [t for t in range(lo, hi, sf) if cells.applies(f, t)]
                if rf.derived and rf.stride > 1 and kind != 'ExactlyK':
                    raise Outside('run-length constraint on a factor with stride > 1')
                for ln in lnames:
                    xs = [cells.name_is(f, t, ln) for t in ts]
                    out += _runlen(kind, k, xs, f'{kind}:{k}:{f}:{ln}@{lo}')
            continue
        raise ValueError(kind)
    return out


def _runlen(kind, k, xs, label):
    n = len(xs)
    out = []
    if kind == 'ExactlyK':
        out.append((label, z3.PbEq([(x, 1) for x in xs], k) if xs else z3.BoolVal(k == 0)))
        return out
    if kind == 'AtMostKInARow':
        for i in range(0, n - k):
            out.append((f'{label}#{i}', z3.Not(z3.And(xs[i:i + k + 1]))))
        return out
    for j in range(n):
        start = xs[j] if j == 0 else z3.And(xs[j], z3.Not(xs[j - 1]))
        if j + k > n:
            out.append((f'{label}#{j}', z3.Not(start)))
            continue
        body = z3.And(xs[j:j + k]) if k > 1 else xs[j]
        if kind == 'ExactlyKInARow' and j + k < n:
            body = z3.And(body, z3.Not(xs[j + k]))
        out.append((f'{label}#{j}', z3.Implies(start, body)))
    return out


def _latin(sem, cells, c):
    F = sem.factors
    names = c[1]
    if len(names) == 1:
        return []
    nf = [len(F[f].level_names) for f in names]
    if any(any(w > 1 for w in F[f].weights) for f in names):
        raise Refused('LatinSquare with weighted levels')
    # [constraints.rst LatinSquare] N is the level count of the factor with the most levels; a factor with fewer
    # levels cycles through its own levels (a Latin rectangle), and the deterministic order of combinations
    # steps each non-main factor's offset through its own level count before the next factor's offset moves.
    N = max(nf)
    s = sustain_of(sem, names[0])
    pre = 0
    for cr in sem.crossings:
        if names[0] in cr['factors']:
            pre = cr['pre_eff'] * s
    if s != 1:
        raise Outside('LatinSquare on sustained factors')
    main = max(i for i in range(len(names)) if nf[i] == N)
    rot = [0] * len(names)
    out = []
    i = pre
    while i < sem.T:
        seg = [t for t in range(i, min(i + N, sem.T))]
        for t in seg:
            for k in range(N):
                mk = cells.cell(names[main], t, k)
                for idx, f in enumerate(names):
                    if idx != main:
                        out.append((f'Latin@{t}', z3.Implies(mk, cells.cell(f, t, (k + rot[idx]) % nf[idx]))))
        for k in range(N):
            out.append((f'Latin:distinct@{i}', z3.PbLe([(cells.cell(names[main], t, k), 1) for t in seg], 1)))
        j = len(names) - 1
        while j >= 0:
            if j != main:
                rot[j] += 1
                if rot[j] < nf[j]:
                    break
                rot[j] = 0
            j -= 1
        i += N
    return out


# ---------------------------------------------------------------------------------------------------------------------
# concrete validator: the same rules on a name-level sequence
# ---------------------------------------------------------------------------------------------------------------------

def validate(desc, seq):
    """seq: {factor name: [level name or '' per trial]}.  Returns (ok, [labels of violated conjuncts])."""
    sem = analyse(desc, expand=False)
    if sem.status != 'ok':
        return False, ['design has no valid sequences']
    T = sem.T
    for f in sem.design:
        if f not in seq or len(seq[f]) != T:
            return False, [f'length:{f}']
    bad = []

    def var_of(t, fname, slot):
        rf = sem.factors[fname]
        if not rf.applies(t // sustain_of(sem, fname)):
            return None
        return z3.BoolVal(seq[fname][t] == rf.slot_name(slot))
    cells = Cells(sem, var_of)
    for f in sem.design:
        rf = sem.factors[f]
        for t in range(T):
            app = rf.applies(t // sustain_of(sem, f))
            v = seq[f][t]
            if app and v not in rf.level_names:
                bad.append(f'level:{f}@{t}')
            if not app and v not in ('', None):
                bad.append(f'inapplicable:{f}@{t}')
    if bad:
        return False, bad
    for label, e in formula(sem, cells):
        if not z3.is_true(z3.simplify(e)):
            bad.append(label)
    return not bad, bad


def unequal_completions(desc):
    """Structural precondition of the recorded C05 finding: some crossing contains a within-trial derived factor and its
    combinations admit different numbers of source completions (assignments of the crossed basic factors and of the
    basic factors the crossed derived factors are computed from)."""
    factors = {}
    for fs in desc['factors']:
        rf = RF(fs)
        factors[rf.name] = rf
        rf.finish(factors)

    def sources(n, acc):
        rf = factors[n]
        if not rf.derived:
            acc.add(n)
        else:
            for s in rf.window['factors']:
                sources(s, acc)
        return acc

    def leaves(bs):
        k = bs['kind']
        if k in ('cross', 'multi'):
            yield bs
        elif k == 'repeat':
            yield from leaves(bs['block'])
        elif k == 'merge':
            for b in bs['blocks']:
                yield from leaves(b)
        else:
            yield from leaves(bs['outer'])
            yield from leaves(bs['inner'])

    for bs in leaves(desc['block']):
        design = list(bs['design'])
        crs = [list(bs['crossing'])] if bs['kind'] == 'cross' else [list(c) for c in bs['crossings']]
        excludes = [(c[1], c[2]) for c in bs.get('constraints', []) if c[0] == 'Exclude']
        try:
            feas = _single_trial_feasible(design, factors, excludes)
        except Exception:
            continue
        for cr in crs:
            simple = [f for f in cr if not factors[f].complex]
            if not any(factors[f].derived for f in simple):
                continue
            src = set()
            for f in simple:
                sources(f, src)
            src = sorted(s for s in src if s in design)
            counts = {}
            for a in feas:
                combo = tuple(a[f] for f in simple)
                counts.setdefault(combo, set()).add(tuple(a[s] for s in src))

            def copies(asg):
                # a weighted level of a basic factor outside the crossing is expanded into that many copies
                n = 1
                for sname, li in zip(src, asg):
                    if sname not in cr:
                        n *= factors[sname].weights[li]
                return n
            if len({sum(copies(x) for x in v) for v in counts.values()}) > 1:
                return True
    return False
