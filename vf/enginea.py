"""Engine A on designs: compile a descriptor with the real constructors, link the compiled formula's trial variables
to the reference semantics' cells, and pose soundness / completeness / uniqueness / inclusion queries."""
import time

import z3

from .common import HarnessError, quiet
from .designs import build, compiled_clauses, variable_table, factor_key
from .ref import analyse, formula, Cells, validate, Refused, Outside
from .sat import Z, z3_check, definability_closure, not_exists_aux_z3, uniqueness_query, solve, Incremental


class Rejected(Exception):
    """The real constructor refused the design (a documented refusal, not a verdict)."""


class InternalError(IndexError):
    """Compiling an accepted design raised: C08's subject.  (Subclass of IndexError so that every caller that already
    sets internal errors aside handles it the same way.)"""


class Comp:
    pass


def compile_design(desc, need_ref=True):
    comp = Comp()
    comp.desc = desc
    comp.sem = None
    comp.sem_error = None
    if need_ref:
        try:
            comp.sem = analyse(desc)
        except Refused as e:
            comp.sem_error = ('refused', str(e))
        # Outside propagates to the caller
    try:
        with quiet():
            comp.built = build(desc)
    except (ValueError, RuntimeError) as e:
        raise Rejected(f'{type(e).__name__}: {e}')
    except Exception as e:
        # the constructor did not accept the design (it failed with an undocumented exception type): not a verdict
        # for properties about accepted designs
        raise Rejected(f'constructor-internal {type(e).__name__}: {e}')
    comp.block = comp.built.block
    try:
        with quiet():
            comp.clauses = compiled_clauses(comp.block)
            comp.errors = bool(comp.block.show_errors())
        comp.support = comp.block.variables_per_sample()
        comp.T_lib = comp.block.trials_per_sample()
        comp.vt = variable_table(comp.block)
    except Exception as e:
        raise InternalError(f'{type(e).__name__}: {e}')
    comp.z = Z()
    comp._closure = None
    return comp


def closure_of(comp):
    if comp._closure is None:
        comp._closure = definability_closure(comp.clauses, comp.support)
    return comp._closure


def reference(comp):
    """(R as a list of labelled z3 constraints, problems) over comp.z's variables."""
    sem, z, vt = comp.sem, comp.z, comp.vt
    problems = []
    if sem.T != comp.T_lib:
        problems.append(f'trial count: documented rules give {sem.T}, block reports {comp.T_lib}')
        return None, problems
    img = sorted(vt.values())
    if img != list(range(1, comp.support + 1)):
        problems.append('variable table image is not exactly 1..variables_per_sample()')
        return None, problems

    def var_of(t, fname, slot):
        v = vt.get((t, (fname, False), slot))
        return None if v is None else z.var(v)
    cells = Cells(sem, var_of)
    # the table must have exactly the cells the reference expects for non-derived factors
    for f in sem.design:
        rf = sem.factors[f]
        if not rf.derived:
            for t in range(sem.T):
                for s in range(len(rf.slots)):
                    if (t, (f, False), s) not in vt:
                        problems.append(f'no variable for {f}@{t} slot {s}')
                        return None, problems
    # no variable may exist for a cell where the factor does not apply
    for (t, (fname, hidden), li), v in vt.items():
        if not hidden and fname in sem.factors and not cells.applies(fname, t):
            problems.append(f'layout: a variable is allocated for {fname}@{t} where the factor does not apply')
            return None, problems
    R = formula(sem, cells)
    # hidden name-factors introduced for weighted levels: defined by the copy that was chosen
    for (t, (fname, hidden), li), v in vt.items():
        if hidden:
            rf = sem.factors[fname]
            R.append((f'hidden:{fname}@{t}', z.var(v) == cells.name_is(fname, t, rf.level_names[li])))
        else:
            if fname not in sem.factors or li >= len(sem.factors[fname].slots):
                problems.append(f'variable for unknown cell {fname}@{t} level {li}')
                return None, problems
    comp.cells = cells
    return R, problems


def decode_model(comp, model):
    """Real decoding path: Gen.decode + add_implied_levels + hidden-key filter (as synthesize_trials does)."""
    from sweetpea._internal.sampling_strategy.base import Gen
    from sweetpea._internal.primitive import HiddenName
    lits = [(v if model[v] else -v) for v in range(1, comp.support + 1)]
    with quiet():
        e = Gen.decode(comp.block, lits)
        e = comp.block.add_implied_levels(e)
    return {k: list(v) for k, v in e.items() if not isinstance(k, HiddenName)}


def model_x(comp, m):
    return {v: z3.is_true(m.eval(comp.z.var(v), model_completion=True)) for v in range(1, comp.support + 1)}


def x_to_names(comp, x):
    """Name-level sequence of an assignment of the trial variables (own table; used for completeness replays)."""
    sem = comp.sem
    seq = {f: [''] * sem.T for f in sem.design}
    for (t, (fname, hidden), li), v in comp.vt.items():
        if hidden or not x[v]:
            continue
        seq[fname][t] = sem.factors[fname].slot_name(li)
    # implied derived factors
    def var_of(t, fname, slot):
        rf = sem.factors[fname]
        if seq[fname][t] == '':
            return None
        return z3.BoolVal(seq[fname][t] == rf.slot_name(slot))
    cells = Cells(sem, var_of)
    for f in sem.design:
        rf = sem.factors[f]
        if rf.derived and not any(k[1] == (f, False) for k in comp.vt):
            for t in range(sem.T):
                if cells.applies(f, t):
                    for s in range(len(rf.slots)):
                        if z3.is_true(z3.simplify(cells.derive(f, t, s))):
                            seq[f][t] = rf.slot_name(s)
    return seq


def lib_sat_with_units(comp, x):
    from sweetpea._internal.core.cnf import CNF
    from sweetpea._internal.core import cnf_is_satisfiable
    units = [[v if x[v] else -v] for v in range(1, comp.support + 1)]
    with quiet():
        return bool(cnf_is_satisfiable(CNF(comp.clauses + units)))


def soundness(comp, ctx, R):
    """F & not R.  Returns None or a dict describing a replayed counterexample."""
    z = comp.z
    Rall = z3.And([e for _, e in R]) if R else z3.BoolVal(True)
    r, m = z3_check(z.cnf(comp.clauses) + [z3.Not(Rall)], ctx)
    if r == 'unsat':
        return None
    if r != 'sat':
        ctx.note_inconclusive(f'soundness {r}')
        return None
    x = model_x(comp, m)
    full = {v: z3.is_true(m.eval(z.var(v), model_completion=True)) for v in range(1, comp.support + 1)}
    seq = decode_model(comp, full)
    ok, bad = validate(comp.desc, seq)
    if ok:
        raise HarnessError(f'soundness counterexample decodes to a sequence the concrete validator accepts: {seq}')
    return {'x': [v for v in range(1, comp.support + 1) if x[v]], 'sequence': seq, 'violated': bad[:6]}


def completeness(comp, ctx, R):
    """R & not exists aux. F.  Returns None or a replayed counterexample."""
    z = comp.z
    clo = closure_of(comp)
    ctx.solver_s += clo.seconds
    Rl = [e for _, e in R]
    if clo.status == 'conflict':
        r, m = z3_check(Rl, ctx)
    else:
        ne = not_exists_aux_z3(clo, z)
        if ne is None:
            ctx.note_inconclusive(f'completeness: {len(clo.undefined)} undefined auxiliaries')
            return None
        r, m = z3_check(z.cnf(clo.d_clauses) + Rl + [ne], ctx)
    if r == 'unsat':
        return None
    if r != 'sat':
        ctx.note_inconclusive(f'completeness {r}')
        return None
    x = model_x(comp, m)
    seq = x_to_names(comp, x)
    ok, bad = validate(comp.desc, seq)
    if not ok:
        raise HarnessError(f'completeness counterexample is not valid for the concrete validator: {bad[:4]} {seq}')
    if lib_sat_with_units(comp, x):
        raise HarnessError('completeness counterexample is satisfiable in the real formula')
    return {'x': [v for v in range(1, comp.support + 1) if x[v]], 'sequence': seq}


def uniqueness(comp, ctx):
    u = uniqueness_query(comp.clauses, comp.support, ctx)
    if u == 'unknown':
        ctx.note_inconclusive('uniqueness unknown')
        return None
    if u is None:
        return None
    ma, mb = u
    from sweetpea._internal.core.cnf import CNF
    from sweetpea._internal.core import cnf_is_satisfiable
    n = max(ma)
    with quiet():
        a = cnf_is_satisfiable(CNF(comp.clauses + [[v if ma[v] else -v] for v in range(1, n + 1)]))
        b = cnf_is_satisfiable(CNF(comp.clauses + [[v if mb[v] else -v] for v in range(1, n + 1)]))
    if not (a and b) or ma == mb:
        raise HarnessError('uniqueness counterexample did not reproduce')
    diff = [v for v in range(1, n + 1) if ma[v] != mb[v]]
    return {'x': [v for v in range(1, comp.support + 1) if ma[v]], 'differing_aux': diff[:10]}


def count_ref_models(comp, R, limit=200000):
    """Number of models of R projected on the trial variables (solver enumeration with blocking clauses)."""
    z = comp.z
    s = z3.Solver()
    for _, e in R:
        s.add(e)
    xs = [z.var(v) for v in range(1, comp.support + 1)]
    n = 0
    while n < limit:
        if s.check() != z3.sat:
            break
        m = s.model()
        s.add(z3.Or([x != m.eval(x, model_completion=True) for x in xs]))
        n += 1
    return n


# ---------------------------------------------------------------------------------------------------------------------
# projection inclusion between two compiled blocks (no reference semantics involved)
# ---------------------------------------------------------------------------------------------------------------------

def table_by_names(comp):
    """{(t, factor name, hidden, level position): var}; level position = index among the factor's levels."""
    return {(t, fk[0], fk[1], li): v for (t, fk, li), v in comp.vt.items()}


def inclusion(c1, c2, ctx, keymap=None):
    """Is every trial sequence of block 1 a trial sequence of block 2?   F1(x,a1) & D2(x,a2) & not Rest2(x,a2).
    Trial variables are matched through the two real variable tables by (trial, factor name, level position);
    keymap optionally renames block-1 keys.  Returns None (included), 'incomparable', 'inconclusive' or a dict with a
    replayed counterexample."""
    t1, t2 = table_by_names(c1), table_by_names(c2)
    if keymap:
        t1 = {keymap(k): v for k, v in t1.items()}
    if set(t1) != set(t2):
        return 'incomparable'
    z1, z2 = Z('p'), Z('q')
    link = [z1.var(t1[k]) == z2.var(t2[k]) for k in t1]
    clo = closure_of(c2)
    ctx.solver_s += clo.seconds
    if clo.status == 'conflict':
        r, m = z3_check(z1.cnf(c1.clauses), ctx)
    else:
        ne = not_exists_aux_z3(clo, z2)
        if ne is None:
            return 'inconclusive'
        r, m = z3_check(z1.cnf(c1.clauses) + link + z2.cnf(clo.d_clauses) + [ne], ctx)
    if r == 'unsat':
        return None
    if r != 'sat':
        return 'inconclusive'
    x1 = {v: z3.is_true(m.eval(z1.var(v), model_completion=True)) for v in range(1, c1.support + 1)}
    x2 = {t2[k]: x1[t1[k]] for k in t1}
    if not lib_sat_with_units(c1, x1) or lib_sat_with_units(c2, x2):
        raise HarnessError('inclusion counterexample did not reproduce through the library SAT path')
    return {'x1': [v for v in x1 if x1[v]], 'sequence': decode_model(c1, x1)}


def inclusion_linked(c1, c2, link, ctx):
    """Like inclusion(), with an arbitrary link between the two variable tables:
    link(z1, z2, table1, table2) -> list of z3 constraints that determine block-2 trial variables up to the intended
    correspondence.  Returns None (included) / 'inconclusive' / a dict with a model of block 1 that has no
    corresponding model of block 2 (not replayed here: the caller replays through counts)."""
    t1, t2 = table_by_names(c1), table_by_names(c2)
    z1, z2 = Z('p'), Z('q')
    clo = closure_of(c2)
    ctx.solver_s += clo.seconds
    if clo.status == 'conflict':
        r, m = z3_check(z1.cnf(c1.clauses), ctx)
        return None if r == 'unsat' else ('inconclusive' if r != 'sat' else {'sequence': None})
    # "no block-2 assignment linked to x1 is a model": forall x2. link -> not F2.  The link is functional from the
    # block-2 side only up to copies, so quantify the block-2 trial variables explicitly (they are few).
    x2 = [z2.var(v) for v in range(1, c2.support + 1)]
    aux2 = sorted({abs(l) for c in c2.clauses for l in c if abs(l) > c2.support})
    body = z3.And(link(z1, z2, t1, t2) + z2.cnf(c2.clauses))
    q = z3.Not(z3.Exists(x2 + [z2.var(a) for a in aux2], body)) if (x2 or aux2) else z3.Not(body)
    r, m = z3_check(z1.cnf(c1.clauses) + [q], ctx, timeout_ms=180000)
    if r == 'unsat':
        return None
    if r != 'sat':
        return 'inconclusive'
    x1 = {v: z3.is_true(m.eval(z1.var(v), model_completion=True)) for v in range(1, c1.support + 1)}
    return {'x1': [v for v in x1 if x1[v]], 'sequence': decode_model(c1, x1)}
