"""Generator space of design descriptors: a fixed corpus (every feature once, constraint kind x scope) and seeded
random descriptors.  Sizes are kept small (T <= 8 quick, <= 12 thorough; <= 4 factors)."""
import copy
import random

A2 = {'name': 'A', 'levels': ['a0', 'a1']}
A3 = {'name': 'A', 'levels': ['a0', 'a1', 'a2']}
B2 = {'name': 'B', 'levels': ['b0', 'b1']}
B3 = {'name': 'B', 'levels': ['b0', 'b1', 'b2']}
C2 = {'name': 'C', 'levels': ['c0', 'c1']}
C3 = {'name': 'C', 'levels': ['c0', 'c1', 'c2']}
AW = {'name': 'A', 'levels': [['a0', 2], 'a1']}
CW = {'name': 'C', 'levels': [['c0', 2], 'c1']}
N2 = {'name': 'N', 'levels': [0, 1]}


def within(name, srcs, preds=(('eq',), ('ne',)), names=None):
    names = names or [f'{name.lower()}{i}' for i in range(len(preds))]
    return {'name': name, 'window': {'kind': 'within', 'factors': list(srcs)},
            'levels': [{'name': n, 'pred': list(p)} if p != 'else' else {'name': n, 'else': True}
                       for n, p in zip(names, preds)]}


def transition(name, src, preds=(('same',), ('diff',))):
    return {'name': name, 'window': {'kind': 'transition', 'factors': [src]},
            'levels': [{'name': f'{name.lower()}{i}', 'pred': list(p)} if p != 'else' else
                       {'name': f'{name.lower()}{i}', 'else': True} for i, p in enumerate(preds)]}


def window(name, src, width, stride=1, start=None, preds=(('allsame',), ('notallsame',))):
    return {'name': name, 'window': {'kind': 'window', 'factors': [src], 'width': width, 'stride': stride,
                                     'start': start},
            'levels': [{'name': f'{name.lower()}{i}', 'pred': list(p)} if p != 'else' else
                       {'name': f'{name.lower()}{i}', 'else': True} for i, p in enumerate(preds)]}


def cross(design, crossing, cons=(), rcc=True):
    return {'kind': 'cross', 'design': list(design), 'crossing': list(crossing),
            'constraints': [list(c) for c in cons], 'rcc': rcc}


def multi(design, crossings, cons=(), mode='equal', alignment='equal preamble', rcc=True):
    return {'kind': 'multi', 'design': list(design), 'crossings': [list(c) for c in crossings],
            'constraints': [list(c) for c in cons], 'rcc': rcc, 'mode': mode, 'alignment': alignment}


def repeat(block, cons=()):
    return {'kind': 'repeat', 'block': block, 'constraints': [list(c) for c in cons]}


def merge(blocks, cons=(), mode='repeat', alignment=None):
    return {'kind': 'merge', 'blocks': list(blocks), 'constraints': [list(c) for c in cons], 'mode': mode,
            'alignment': alignment}


def nest(outer, inner, cons=(), alignment=None):
    d = {'kind': 'nest', 'outer': outer, 'inner': inner, 'constraints': [list(c) for c in cons]}
    if alignment:
        d['alignment'] = alignment
    return d


def D(factors, block):
    return {'factors': copy.deepcopy(list(factors)), 'block': copy.deepcopy(block)}


CONG = within('G', ['A', 'B'], preds=(('table', [['a0', 'b0'], ['a1', 'b1']]), 'else'))
CONG_DEGENERATE = within('G', ['A', 'B'])   # 'eq' never holds: level g0 unreachable
TRA = transition('R', 'A')
TRB = transition('S', 'B')


def fixed_corpus():
    out = []
    add = out.append
    # ---- plain crossings ---------------------------------------------------------------------------------------
    add(D([A2, B2], cross('AB', 'AB')))
    add(D([A3, B2], cross('AB', 'AB')))
    add(D([A2, B2, C2], cross('ABC', 'AB')))
    add(D([A2, B3], cross('AB', 'A')))
    add(D([A2, B2], cross('AB', '')))   # no crossing
    # ---- derived factors -----------------------------------------------------------------------------------------
    add(D([A2, B2, CONG], cross('ABG', 'AB')))
    add(D([A3, B3, CONG], cross('ABG', 'AG', rcc=True)))
    add(D([A2, B2, CONG], cross('ABG', 'AG')))
    add(D([A2, B2, TRA], cross('ABR', 'AB')))
    add(D([A2, B2, TRA], cross('ABR', 'AR')))
    add(D([A3, TRA], cross('AR', 'R')))
    add(D([A2, B2, TRA, TRB], cross('ABRS', 'RS')))
    # two window factors, the first implied (no variables), the second constrained / crossed
    add(D([A2, B2, TRA, TRB], cross('ABRS', 'AB', [['AtMostKInARow', 2, 'S', 's0']])))
    add(D([A2, B2, TRA, TRB], cross('ABRS', 'AS')))
    add(D([A2, window('W', 'A', 3)], cross('AW', 'A')))
    add(D([A2, window('W', 'A', 3)], cross('AW', 'AW')))
    add(D([A2, B2, window('W', 'A', 2, stride=2)], cross('ABW', 'AB')))
    add(D([A2, B2, window('W', 'A', 2, stride=2, start=2)], cross('ABW', 'AB', [['AtMostKInARow', 1, 'A', 'a0']])))
    # stride and explicit start together, the factor constrained (so that its derivation is encoded)
    add(D([A2, B2, window('W', 'A', 2, stride=2, start=2)], cross('ABW', 'AB', [['ExactlyK', 1, 'W', 'w0']])))
    add(D([A3, B2, window('W', 'B', 2, stride=2, start=2)], cross('ABW', 'AB', [['AtMostKInARow', 1, 'W', 'w0']])))
    add(D([A2, B2, window('W', 'A', 2, start=0, preds=(('first', 'a0'), 'else'))], cross('ABW', 'AB')))
    add(D([A2, B2, window('W', 'A', 1, start=2, preds=(('first', 'a0'), 'else'))], cross('ABW', 'AB')))
    add(D([A2, B2, window('W', 'A', 2, start=3)], cross('ABW', 'AW')))
    add(D([A3, B2, within('G', ['A', 'B'], preds=(('table', [['a0', 'b0'], ['a1', 'b1']]), 'else'))],
          cross('ABG', 'AB', [['AtMostKInARow', 1, 'G', 'g0']])))
    add(D([A2, B2, CONG, transition('Q', 'G')], cross('ABGQ', 'AB', [['AtMostKInARow', 2, 'Q', 'q0']])))
    # implied window factors with an early explicit start (the missing earlier trials are None)
    add(D([A2, B2, window('W', 'A', 2, start=0)], cross('ABW', 'AB')))
    add(D([A2, B2, window('W', 'B', 3, start=1)], cross('ABW', 'AB')))
    add(D([A2, B2, CW, window('W', 'C', 2, start=0)], cross('ABCW', 'AB')))
    # derived factors over an UNCROSSED source (a change of the source invalidates only the derived column)
    add(D([A2, B2, C2, window('W', 'C', 2, start=0, preds=(('first', 'c0'), 'else'))], cross('ABCW', 'AB')))
    add(D([A2, B2, C2, window('W', 'C', 3, start=1, preds=(('first', 'c0'), 'else'))], cross('ABCW', 'AB')))
    add(D([A2, B2, C2, transition('Q', 'C')], cross('ABCQ', 'AB')))
    # level names that are numbers, 0 included (falsy names must not be taken for "no level")
    add(D([N2, B2], cross('NB', 'NB', [['AtMostKInARow', 1, 'N', 0]])))
    add(D([N2, B2, C2], cross('NBC', 'BC', [['Exclude', 'N', 0]])))
    add(D([A2, N2], cross('AN', 'A', [['Pin', 0, 'N', 0]])))
    add(D([N2, B2, within('G', ['N'], preds=(('first', 0), 'else'))], cross('NBG', 'BG', [['ExactlyK', 1, 'N', 0]])))
    # a crossed derived factor whose combinations have different numbers of completions (uncrossed 3-level source),
    # with a partial extra round
    add(D([A2, C3, within('G', ['A', 'C'], preds=(('table', [['a0', 'c0'], ['a1', 'c1']]), 'else'))],
          cross('ACG', 'AG', [['MinimumTrials', 5]])))
    add(D([A2, C3, within('G', ['A', 'C'], preds=(('table', [['a0', 'c0'], ['a1', 'c1']]), 'else'))],
          repeat(cross('ACG', 'AG'), [['MinimumTrials', 5]])))
    # every combination of the crossed derived factor has the same number (2) of source completions, partial round
    add(D([A2, {'name': 'C', 'levels': ['c0', 'c1', 'c2', 'c3']},
           within('G', ['C'], preds=(('table', [['c0'], ['c1']]), 'else'))], cross('ACG', 'G', [['MinimumTrials', 3]])))
    add(D([{'name': 'C', 'levels': ['c0', 'c1', 'c2', 'c3']}, within('G', ['C'], preds=(('table', [['c0'], ['c1']]), 'else'))],
          cross('CG', 'G', [['MinimumTrials', 3]])))      # 48 sequences
    # an unreachable derived level in the SECOND crossing (complete crossing not required)
    add(D([A2, B2, within('G', ['A', 'B'], preds=(('table', [['a0', 'b0'], ['a0', 'b1'], ['a1', 'b0'], ['a1', 'b1']]), 'else'))],
          multi('ABG', ['B', 'G'], mode='repeat', rcc=False)))
    # a WEIGHTED level of a crossed derived factor with unequal completions, partial round of as many trials as there are
    # distinct combinations
    GW = {'name': 'G', 'window': {'kind': 'within', 'factors': ['A', 'C']},
          'levels': [{'name': 'g0', 'pred': ['table', [['a0', 'c0'], ['a1', 'c1']]], 'weight': 2}, {'name': 'g1', 'else': True}]}
    add(D([A2, C3, GW], repeat(cross('ACG', 'G'), [['MinimumTrials', 5]])))
    add(D([A2, C3, GW], cross('ACG', 'G', [['MinimumTrials', 5]])))
    # Pin at the first index beyond the block, and at the last ones inside it, counted from either end
    add(D([A2, B2, C2], cross('ABC', 'AB', [['Pin', 4, 'C', 'c0']])))
    add(D([A2, B2, C2], cross('ABC', 'AB', [['Pin', 3, 'C', 'c0']])))
    add(D([A2, B2, C2], cross('ABC', 'AB', [['Pin', -4, 'C', 'c0']])))
    add(D([A2, B2, C2], cross('ABC', 'AB', [['Pin', -5, 'C', 'c0']])))
    add(D([A2, B2, C2], repeat(cross('ABC', 'A', [['Pin', 2, 'C', 'c0']]), [['MinimumTrials', 4]])))
    # Nest whose OUTER crossing contains a within-trial derived factor with an uncrossed outer source
    add(D([A2, B2, C2, CONG], nest(cross('ABG', 'G'), cross('C', 'C'))))
    # Exclude on a crossed within-trial derived level, with a crossed transition factor (the preamble trial must not
    # carry the excluded level either)
    add(D([A2, B2, CONG, TRA], cross('ABGR', 'GR', [['Exclude', 'G', 'g0']], rcc=False)))
    add(D([A2, B2, CONG, TRB], cross('ABGS', 'GS', [['Exclude', 'G', 'g1']], rcc=False)))
    # MinimumTrials given to the Nest itself, not a multiple of the inner block's length (rounded up to whole groups)
    add(D([A2, B2], nest(cross('A', 'A'), cross('B', 'B'), [['MinimumTrials', 5]])))
    add(D([A2, B3], nest(cross('A', 'A'), cross('B', 'B'), [['MinimumTrials', 7]])))
    # a transition over TWO factors (both repeat / otherwise), crossed, constrained and implied; and a second-order
    # derived factor over it
    TR2 = {'name': 'R', 'window': {'kind': 'transition', 'factors': ['A', 'B']},
           'levels': [{'name': 'r0', 'pred': ['table', [[[x, x], [y, y]] for x in ('a0', 'a1') for y in ('b0', 'b1')]]},
                      {'name': 'r1', 'else': True}]}
    add(D([A2, B2, TR2], cross('ABR', 'AB')))
    add(D([A2, B2, TR2], cross('ABR', 'A', [['MinimumTrials', 4], ['AtMostKInARow', 1, 'R', 'r1']])))
    add(D([A2, B2, TR2], cross('ABR', 'R')))
    add(D([A2, B2, TR2], cross('ABR', 'AR')))
    W2 = {'name': 'W', 'window': {'kind': 'window', 'factors': ['A', 'B'], 'width': 2, 'stride': 1, 'start': 0},
          'levels': [{'name': 'w0', 'pred': ['table', [[[None, x], [None, y]] for x in ('a0', 'a1') for y in ('b0', 'b1')] +
                                                      [[[x, x], [y, z]] for x in ('a0', 'a1') for y in ('b0', 'b1') for z in ('b0', 'b1')]]},
                     {'name': 'w1', 'else': True}]}
    add(D([A2, B2, W2], cross('ABW', 'AB', [['ExactlyK', 2, 'W', 'w0']])))
    add(D([A2, B2, W2], cross('ABW', 'AB')))
    # Pin at a trial where the derived factor has no level (none valid), and at its first / last applicable trial
    add(D([A2, B2, TRA], cross('ABR', 'AB', [['Pin', 0, 'R', 'r0']])))
    add(D([A2, B2, TRA], cross('ABR', 'AB', [['Pin', -4, 'R', 'r0']])))
    add(D([A2, B2, TRA], cross('ABR', 'AB', [['Pin', 1, 'R', 'r0']])))
    add(D([A2, B2, TRA], cross('ABR', 'AB', [['Pin', -1, 'R', 'r1']])))
    add(D([A2, B2, window('W', 'A', 2, stride=2)], cross('ABW', 'AB', [['Pin', 2, 'W', 'w0']])))
    # constraints on a window factor that applies to no trial of the block
    add(D([A3, B3, window('W', 'B', 2, start=3)], cross('ABW', 'B', [['ExactlyK', 2, 'W', 'w0']])))
    add(D([A3, B3, window('W', 'B', 2, start=3)], cross('ABW', 'B', [['AtMostKInARow', 1, 'W', 'w0']])))
    add(D([A3, B3, window('W', 'B', 2, start=3)], cross('ABW', 'B', [['Pin', 0, 'W', 'w0']])))
    # window factors over another window factor (second order), constrained / crossed / mixed with a basic source
    QR = transition('Q', 'R')
    add(D([A2, B2, TRA, QR], cross('ABRQ', 'AB', [['AtMostKInARow', 1, 'Q', 'q0']])))
    add(D([A2, B2, TRA, QR], cross('ABRQ', 'Q')))
    add(D([A2, B2, TRA, QR], cross('ABRQ', 'RQ')))
    add(D([A2, B2, TRA, window('W', 'R', 3)], cross('ABRW', 'AB', [['ExactlyK', 1, 'W', 'w0']])))
    add(D([A2, B2, TRA, window('W', 'R', 2, start=3)], cross('ABRW', 'AB', [['AtMostKInARow', 1, 'W', 'w1']])))
    add(D([A2, B2, TRA, QR, transition('P', 'Q')], cross('ABRQP', 'AB', [['ExactlyK', 1, 'P', 'p0']])))
    add(D([A2, B2, TRA, {'name': 'Q', 'window': {'kind': 'transition', 'factors': ['R', 'B']},
                         'levels': [{'name': 'q0', 'pred': ['table', [[[x, x], [y, y]] for x in ('r0', 'r1') for y in ('b0', 'b1')]]},
                                    {'name': 'q1', 'else': True}]}], cross('ABRQ', 'AB', [['AtMostKInARow', 2, 'Q', 'q1']])))
    # AtLeastKInARow with k >= 3 and at least k+2 trials, small enough for the RandomGen enumeration (the rule against a
    # run that starts in the last trials)
    add(D([A2, B2], cross('AB', 'A', [['MinimumTrials', 5], ['AtLeastKInARow', 3, 'B', 'b0']])))
    add(D([A2, B2], cross('AB', 'A', [['MinimumTrials', 6], ['AtLeastKInARow', 3, 'B', 'b0']])))
    # a weighted factor in a non-last crossing of a WEIGHT/REPEAT-mode multi-crossing block (crossings of different
    # sizes); outside the reference (weights in some crossings), used by the formula-to-formula laws (C24) and C08
    add(D([AW, B2, C3], multi('ABC', ['A', 'C'], mode='weight')))
    add(D([AW, B2, C3], multi('ABC', ['A', 'C'], mode='repeat')))
    add(D([AW, B3, C2], multi('ABC', ['A', 'B', 'C'], mode='weight')))
    # a two-trial preamble over a 3-level factor (3**2 preambles, not 3*2)
    add(D([A3, window('W', 'A', 3)], cross('AW', 'W')))
    # a window wider than the whole sequence (two trials), starting early: shifted source indices run past the grid
    add(D([A2, B2, window('W', 'B', 3, start=1)], cross('ABW', 'A', [['ExactlyK', 1, 'W', 'w1']])))
    add(D([A2, B2, window('W', 'B', 3, start=1)],
          merge([cross('ABW', 'A', [['ExactlyK', 3, 'W', 'w1']]), cross('ABW', 'B')], mode='weight')))
    add(D([A2, B2, C2, within('G', ['A', 'C'], preds=(('table', [['a0', 'c0'], ['a1', 'c1']]), 'else'))], cross('ABCG', 'AB')))
    add(D([A2, B2, C2, window('W', 'C', 2, stride=2, preds=(('first', 'c0'), 'else'))], cross('ABCW', 'AB')))
    # ---- constraints (scope: whole block) -------------------------------------------------------------------------
    for c in (['AtMostKInARow', 1, 'A', 'a0'], ['AtMostKInARow', 2, 'A', None], ['AtLeastKInARow', 2, 'A', 'a0'],
              ['AtLeastKInARow', 2, 'A', None], ['ExactlyKInARow', 2, 'A', 'a1'], ['ExactlyKInARow', 1, 'A', 'a0'],
              ['ExactlyK', 2, 'C', 'c0'], ['ExactlyK', 0, 'C', 'c1'], ['Pin', 0, 'A', 'a1'], ['Pin', -2, 'B', 'b0'],
              ['Pin', 7, 'A', 'a0'], ['Exclude', 'C', 'c1'], ['MinimumTrials', 6], ['MinimumTrials', 7],
              ['AtMostKInARow', 5, 'A', 'a0'], ['ExactlyK', 9, 'C', 'c0'], ['AtLeastKInARow', 3, 'C', 'c0'],
              ['AtLeastKInARow', 1, 'C', 'c0'], ['AtLeastKInARow', 1, 'C', None], ['ExactlyKInARow', 1, 'C', 'c0'],
              ['AtMostKInARow', 1, 'C', None], ['ExactlyK', 1, 'C', None], ['AtLeastKInARow', 1, 'A', 'a0']):
        add(D([A2, B2, C2], cross('ABC', 'AB', [c])))
    add(D([A2, B2], cross('AB', 'AB', [['AtLeastKInARow', 4, 'A', 'a1']])))
    add(D([A2, B2], cross('AB', 'AB', [['AtLeastKInARow', 5, 'A', 'a1']])))
    add(D([A2, B2], cross('AB', 'AB', [['ExactlyKInARow', 4, 'A', 'a1']])))
    add(D([A2, B2], cross('AB', 'AB', [['ExactlyKInARow', 3, 'B', 'b1']])))
    add(D([A2, B2, TRA], cross('ABR', 'AB', [['AtMostKInARow', 1, 'R', 'r0']])))
    add(D([A2, B2, TRA], cross('ABR', 'AB', [['AtLeastKInARow', 2, 'R', 'r1']])))
    add(D([A2, B2, TRA], cross('ABR', 'AB', [['ExactlyK', 2, 'R', 'r0']])))
    add(D([A2, B2, TRA], cross('ABR', 'AB', [['Exclude', 'R', 'r0']])))
    add(D([A2, B2, CONG], cross('ABG', 'AB', [['Exclude', 'G', 'g0']], rcc=False)))
    add(D([A2, B2, CONG], cross('ABG', 'AB', [['Exclude', 'G', 'g0']], rcc=True)))
    add(D([A3, B2], cross('AB', 'AB', [['Exclude', 'A', 'a2']], rcc=False)))
    add(D([A3, B2, C2], cross('ABC', 'AB', [['Exclude', 'A', 'a2'], ['MinimumTrials', 6]], rcc=False)))
    # an excluded combination of a weighted crossed level counts with its weight (8 - 2*... trials)
    add(D([AW, B2], cross('AB', 'AB', [['Exclude', 'A', 'a0']], rcc=False)))
    add(D([AW, B3], cross('AB', 'AB', [['Exclude', 'B', 'b2']], rcc=False)))
    add(D([A2, B2, CONG], cross('ABG', 'AG', rcc=False)))
    add(D([A2, B2, CONG_DEGENERATE], cross('ABG', 'AG', rcc=False)))
    add(D([A2, B2, CONG_DEGENERATE], cross('ABG', 'AB', rcc=False)))
    add(D([A3, B3], cross('AB', 'A', [['Sequential', 'A']])))
    add(D([A3, B2], cross('AB', 'AB', [['Sequential', 'B']])))
    # Sequential on a factor of a crossing that has a preamble trial (the cycle starts after the preamble)
    add(D([A2, C2, TRA], cross('ACR', 'CR', [['Sequential', 'C']])))
    add(D([A2, C3, TRA], cross('ACR', 'AR', [['Sequential', 'C']])))
    add(D([A3, B3], cross('AB', 'A', [['LatinSquare', ['A', 'B']]])))
    add(D([A3, B3, C3], cross('ABC', 'A', [['LatinSquare', ['A', 'B', 'C']], ['MinimumTrials', 6]])))
    add(D([A2, B2, C2], cross('ABC', 'AB', [['MinimumTrials', 10], ['AtMostKInARow', 2, 'A', 'a0']])))
    add(D([A2, B2, TRA], cross('ABR', 'AR', [['MinimumTrials', 8]])))
    # crossed derived factor whose levels admit different numbers of source combinations
    add(D([A2, C3, within('G', ['A', 'C'], preds=(('table', [['a0', 'c0'], ['a1', 'c0'], ['a1', 'c1']]), 'else'))],
          cross('ACG', 'AG', [['MinimumTrials', 5]])))
    add(D([A2, C2, within('G', ['A', 'C'], preds=(('table', [['a0', 'c0']]), 'else'))],
          cross('ACG', 'G', [['MinimumTrials', 3]])))
    add(D([A2, C3, within('G', ['A', 'C'], preds=(('table', [['a0', 'c0'], ['a1', 'c0'], ['a1', 'c1']]), 'else'))],
          cross('ACG', 'AG')))
    add(D([A3, {'name': 'B', 'levels': ['b0', 'b1', 'b2', 'b3']}], cross('AB', 'A')))   # 21 trial variables
    # window with an explicit start over a weighted uncrossed factor (its definition is rewritten for the copies)
    add(D([A2, B2, CW, window('W', 'C', 1, start=2, preds=(('first', 'c0'), 'else'))],
          cross('ABCW', 'AB', [['AtMostKInARow', 3, 'W', 'w0']])))
    add(D([A2, B2, CW, window('W', 'C', 2, start=3)], cross('ABCW', 'AB')))
    # ---- weights ---------------------------------------------------------------------------------------------------
    add(D([AW, B2], cross('AB', 'AB')))
    add(D([AW, B2], cross('AB', 'AB', [['MinimumTrials', 8]])))
    add(D([AW, B2], cross('AB', 'A', [['MinimumTrials', 5]])))
    add(D([A2, B2, CW], cross('ABC', 'AB')))
    add(D([A2, B2, CW], cross('ABC', 'AB', [['AtMostKInARow', 1, 'C', 'c0']])))
    add(D([A2, CW, within('G', ['A', 'C'], preds=(('table', [['a0', 'c0'], ['a1', 'c1']]), 'else'))], cross('ACG', 'A')))
    add(D([A2, B2, CW], cross('ABC', 'AB', [['ExactlyK', 2, 'C', 'c0']])))
    add(D([A2, B2, CW], cross('ABC', 'AB', [['Pin', 1, 'C', 'c0']])))
    # ---- multiple crossings ----------------------------------------------------------------------------------------
    add(D([A2, B2, C2], multi('ABC', ['AB', 'BC'])))
    add(D([A2, B2, C3], multi('ABC', ['A', 'C'], mode='repeat')))
    add(D([A2, B2, C3], multi('ABC', ['A', 'C'], mode='weight')))
    add(D([A2, B2, C3], multi('ABC', ['AB', 'C'], mode='repeat', cons=[['AtMostKInARow', 1, 'A', 'a0']])))
    add(D([A2, B2, C3, TRA], multi('ABCR', ['AR', 'C'], mode='repeat', alignment='parallel start')))
    add(D([A2, B2, C3, TRA], multi('ABCR', ['AR', 'C'], mode='weight', alignment='parallel start')))
    add(D([A2, B2, C3, TRA], multi('ABCR', ['AR', 'BC'], mode='repeat', alignment='post preamble')))
    add(D([A2, B2, C3, TRA], multi('ABCR', ['AR', 'C'], mode='weight', alignment='post preamble')))
    add(D([AW, B2, C2], multi('ABC', ['AB', 'AC'])))
    # ---- Repeat / Merge ------------------------------------------------------------------------------------------------
    base = cross('AB', 'AB')
    add(D([A2, B2], repeat(base, [])))
    add(D([A2, B2], repeat(base, [['MinimumTrials', 8]])))
    add(D([A2, B2], repeat(cross('AB', 'AB', [['AtMostKInARow', 1, 'A', 'a0']]), [['MinimumTrials', 8]])))
    add(D([A2, B2], repeat(base, [['MinimumTrials', 8], ['AtMostKInARow', 1, 'A', 'a0']])))
    add(D([A2, B2], repeat(cross('AB', 'AB', [['Pin', 0, 'A', 'a1']]), [['MinimumTrials', 8]])))
    add(D([A2, B2], repeat(cross('AB', 'AB', [['Pin', -1, 'A', 'a1']]), [['MinimumTrials', 8], ['Pin', 0, 'B', 'b0']])))
    add(D([A2, B2, C2], repeat(cross('ABC', 'AB', [['ExactlyK', 2, 'C', 'c0']]), [['MinimumTrials', 8]])))
    add(D([A2, B2, C2], repeat(cross('ABC', 'AB', [['AtLeastKInARow', 2, 'C', 'c0']]), [['MinimumTrials', 8]])))
    add(D([A2, B2, C2], repeat(cross('ABC', 'AB'), [['MinimumTrials', 8], ['AtLeastKInARow', 3, 'C', 'c0']])))
    add(D([A2, B2, C2], repeat(cross('ABC', 'AB', [['ExactlyKInARow', 2, 'C', 'c1']]), [['MinimumTrials', 8]])))
    add(D([A2, B2, TRA], repeat(cross('ABR', 'AR'), [['MinimumTrials', 9]])))
    add(D([A2, B2, TRA], repeat(cross('ABR', 'AR', [['AtMostKInARow', 1, 'B', 'b0']]), [['MinimumTrials', 9]])))
    add(D([A2, B2, TRA], repeat(cross('ABR', 'AR', [['Pin', 1, 'B', 'b0']]), [['MinimumTrials', 9]])))
    add(D([A2, B2], repeat(base, [['MinimumTrials', 6]])))
    add(D([A2, B2, C3], merge([cross('AB', 'A'), cross('BC', 'C')])))
    add(D([A2, B2, C3], merge([cross('AB', 'A'), cross('BC', 'C')], mode='weight')))
    add(D([A2, B2, C3], merge([cross('AB', 'A', [['AtMostKInARow', 1, 'B', 'b0']]), cross('BC', 'C')],
                              [['AtMostKInARow', 2, 'B', 'b1']])))
    add(D([A2, B2, C2], merge([cross('AB', 'A', [['MinimumTrials', 4]]), cross('BC', 'C')])))
    add(D([A2, B2], merge([base])))
    add(D([AW, B2], repeat(cross('AB', 'A'), [['MinimumTrials', 5]])))
    add(D([AW, B3], merge([cross('AB', 'A'), cross('AB', 'B')])))
    # ---- Nest ----------------------------------------------------------------------------------------------------------
    add(D([A2, B2], nest(cross('A', 'A'), cross('B', 'B'))))
    add(D([A2, B3], nest(cross('A', 'A'), cross('B', 'B'))))
    add(D([A2, B2, C2], nest(cross('A', 'A'), cross('BC', 'B'))))
    add(D([A2, B2, C2], nest(cross('AC', 'A'), cross('B', 'B'))))
    add(D([A2, B2, C2], nest(cross('CA', 'A'), cross('B', 'B'))))      # uncrossed outer factor listed first
    add(D([A3, B2], nest(cross('A', 'A', [['Sequential', 'A']]), cross('B', 'B'))))
    add(D([A3, B2], nest(cross('A', 'A', [['AtMostKInARow', 1, 'A', 'a0']]), cross('B', 'B', [['Pin', 0, 'B', 'b1']]))))
    add(D([A2, B2], nest(cross('A', 'A', [['MinimumTrials', 4], ['ExactlyK', 2, 'A', 'a0']]), cross('B', 'B'))))
    add(D([A2, B2, C2], nest(nest(cross('A', 'A'), cross('B', 'B')), cross('C', 'C'))))
    add(D([A2, B2, C2], nest(cross('A', 'A'), nest(cross('B', 'B'), cross('C', 'C')))))
    add(D([A2, B2], nest(cross('A', 'A'), cross('B', 'B'), [['AtMostKInARow', 1, 'B', 'b0']])))
    add(D([A2, B2], nest(cross('A', 'A'), repeat(cross('B', 'B'), [['MinimumTrials', 4]]))))
    add(D([A2, B2, C2], nest(cross('A', 'A'), multi('BC', ['B', 'C']))))
    add(D([A2, B2, CW], nest(cross('A', 'A'), cross('BC', 'B', [['AtMostKInARow', 1, 'C', 'c0']]))))
    add(D([A2, B2, CW], nest(cross('AC', 'A', [['ExactlyK', 1, 'C', 'c1']]), cross('B', 'B'))))
    add(D([A2, B2, CW], nest(cross('A', 'A'), cross('BC', 'B'))))
    return out


def randomgen_corpus():
    """Small-candidate-space designs aimed at the combinatoric sampler's special cases."""
    out = []
    add = out.append
    G = within('G', ['A', 'B'], preds=(('table', [['a0', 'b0'], ['a1', 'b1']]), 'else'))
    GC = within('G', ['A', 'C'], preds=(('table', [['a0', 'c0'], ['a1', 'c0'], ['a1', 'c1']]), 'else'))
    # Exclude on a within-trial derived level whose sources are not all crossed
    add(D([A2, B2, G], cross('ABG', 'A', [['Exclude', 'G', 'g0']], rcc=False)))
    add(D([A2, B3, G], cross('ABG', 'A', [['Exclude', 'G', 'g1']], rcc=False)))
    add(D([A2, B2, C2, G], cross('ABCG', 'C', [['Exclude', 'G', 'g0']])))
    # preamble (transition in the crossing) together with Exclude on a basic level
    add(D([A3, B2, TRA], cross('ABR', 'R', [['Exclude', 'B', 'b1']])))
    add(D([A2, B3, transition('S', 'B')], cross('ABS', 'S', [['Exclude', 'A', 'a1']], rcc=False)))
    add(D([A3, B2, TRA], cross('ABR', 'AR', [['Exclude', 'A', 'a2']], rcc=False)))
    # several crossings with different preambles / repeat mode
    add(D([A2, B2, TRA], multi('ABR', ['R', 'B'], mode='repeat', alignment='parallel start')))
    add(D([A2, B2, TRA], multi('ABR', ['AR', 'B'], mode='repeat', alignment='parallel start')))
    add(D([A2, B2, TRA], multi('ABR', ['R', 'B'], mode='weight', alignment='parallel start')))
    add(D([A2, B2, TRA], multi('ABR', ['R', 'B'], mode='repeat', alignment='post preamble')))
    # leftover round + uncrossed independent factor with an Exclude
    add(D([A2, B3], cross('AB', 'A', [['MinimumTrials', 3], ['Exclude', 'B', 'b2']], rcc=True)))
    add(D([A2, B3], repeat(cross('AB', 'A', [['Exclude', 'B', 'b2']]), [['MinimumTrials', 3]])))
    add(D([A3, B2], cross('AB', 'A', [['MinimumTrials', 4], ['Exclude', 'B', 'b1']])))
    # crossed derived factor with uneven source completions, weighted by MinimumTrials
    add(D([A2, C2, within('G', ['A', 'C'], preds=(('table', [['a0', 'c0']]), 'else'))], cross('ACG', 'G', [['MinimumTrials', 4]])))
    add(D([A2, C3, GC], cross('ACG', 'G', [['MinimumTrials', 4]])))
    add(D([AW, C2, within('G', ['A', 'C'], preds=(('table', [['a0', 'c0']]), 'else'))], cross('ACG', 'AG', [['MinimumTrials', 5]])))
    add(D([AW, C2, within('G', ['A', 'C'], preds=(('table', [['a0', 'c0']]), 'else'))],
          repeat(cross('ACG', 'AG'), [['MinimumTrials', 5]])))
    add(D([AW, B2], repeat(cross('AB', 'A'), [['MinimumTrials', 5]])))
    add(D([AW, B2], cross('AB', 'A', [['MinimumTrials', 8]])))
    # weighted crossing, uneven source completions, Repeat whose leftover equals the number of distinct combinations
    add(D([AW, C3, within('G', ['A', 'C'], preds=(('table', [['a0', 'c0'], ['a1', 'c1']]), 'else'))],
          repeat(cross('ACG', 'AG'), [['MinimumTrials', 10]])))
    add(D([AW, C3, within('G', ['A', 'C'], preds=(('table', [['a0', 'c0'], ['a1', 'c1']]), 'else'))],
          repeat(cross('ACG', 'AG'), [['MinimumTrials', 8]])))
    # wide window in the crossing (preamble of 2) with two basic factors
    add(D([A2, B2, window('W', 'A', 3)], cross('ABW', 'W')))
    add(D([A2, B2, window('W', 'A', 3)], cross('ABW', 'BW')))
    add(D([A2, B2, window('W', 'A', 3, preds=(('first', 'a0'), 'else'))], cross('ABW', 'W')))
    # crossed within-trial derived factor over a weighted uncrossed factor
    add(D([A2, B2, CW, within('G', ['C', 'B'], preds=(('table', [['c0', 'b0'], ['c1', 'b1']]), 'else'))],
          cross('ABCG', 'G', [['AtMostKInARow', 1, 'G', 'g1']])))
    add(D([A2, CW, within('G', ['A', 'C'], preds=(('table', [['a0', 'c0'], ['a1', 'c1']]), 'else'))], cross('ACG', 'AG')))
    # nest with an uncrossed outer factor listed before the crossed one
    add(D([A2, B2, C2], nest(cross('CA', 'A'), cross('B', 'B'))))
    add(D([A2, B2, C2], nest(cross('CA', 'A'), cross('B', 'B', [['Pin', 0, 'B', 'b1']]))))
    # LatinSquare with a partial last segment
    add(D([A3, B3], cross('AB', 'A', [['LatinSquare', ['A', 'B']], ['MinimumTrials', 5]])))
    add(D([A3, B3], cross('AB', 'A', [['LatinSquare', ['A', 'B']], ['MinimumTrials', 8]])))
    # Latin rectangles: a factor with fewer levels than the longest one cycles through its own levels
    add(D([A3, B2], cross('AB', 'B', [['LatinSquare', ['A', 'B']], ['MinimumTrials', 7]])))
    add(D([A2, B3], cross('AB', 'AB', [['LatinSquare', ['A', 'B']]])))
    add(D([A2, B3, TRA], cross('ABR', 'R', [['LatinSquare', ['B', 'A']], ['MinimumTrials', 7]])))
    return out


ACCEPTANCE_COUNTS = [6, 6, 54, 18, 90, 36, 96, 4, 16, 12, 144, 12, 144, 12, 144, 24, 576, 96, 24, 24, 144, 240, 4, 2,
                     2, 2, 2, 0, 0]


def acceptance_corpus():
    """Designs of the repository's own acceptance tests that assert hand-computed solution counts
    (test_exhaust_combinatoric, test_k_constraint, test_pin).  C02 exhausts IterateSATGen on them and proves the count
    equal to the reference's, so the reference is tied to ~25 independently computed numbers."""
    out = []
    add = out.append
    K3 = {'name': 'color', 'levels': ['red', 'green', 'blue']}
    for n in (3, 4, 5):
        add(D([K3], cross(['color'], ['color'], [['MinimumTrials', n]], rcc=False)))                    # 6, 54, 90
        add(D([K3], repeat(cross(['color'], ['color'], [], rcc=False), [['MinimumTrials', n]])))      # 6, 18, 36
    K2 = {'name': 'color', 'levels': ['red', 'green']}
    S3 = {'name': 'size', 'levels': ['small', 'med', 'large']}
    M = {'name': 'match', 'window': {'kind': 'within', 'factors': ['color', 'size']},
         'levels': [{'name': 'high', 'pred': ['table', [['red', 'small'], ['red', 'med'], ['green', 'small'], ['green', 'med']]]},
                    {'name': 'low', 'pred': ['table', [['red', 'large'], ['green', 'large']]]}]}
    add(D([K2, S3, M], cross(['color', 'size', 'match'], ['color', 'match'])))                           # 96
    C2_ = {'name': 'color', 'levels': ['red', 'blue']}
    S2 = {'name': 'size', 'levels': ['big', 'small']}
    Dr = {'name': 'direction', 'levels': ['up', 'down', 'left', 'right']}
    for cs in ([['AtMostKInARow', 1, 'color', 'red'], ['AtLeastKInARow', 2, 'color', 'blue']],    # 4
               [['AtMostKInARow', 1, 'color', 'red']], [['AtLeastKInARow', 2, 'color', 'red']],     # 12, 12
               [['ExactlyKInARow', 2, 'color', 'red']], [['ExactlyK', 2, 'color', 'red']]):         # 12, 24
        add(D([C2_, S2], cross(['color', 'size'], ['color', 'size'], cs)))
        add(D([C2_, S2], repeat(cross(['color', 'size'], ['color', 'size'], cs), [['MinimumTrials', 8]])))
    for cs in ([['ExactlyK', 3, 'direction', 'up'], ['ExactlyK', 1, 'direction', 'right']],          # 96
               [['ExactlyK', 4, 'direction', 'up']],                                                  # 24
               [['ExactlyKInARow', 4, 'direction', 'up'], ['ExactlyK', 4, 'direction', 'up']],       # 24
               [['ExactlyKInARow', 3, 'direction', 'up'], ['ExactlyK', 3, 'direction', 'up']],       # 144
               [['ExactlyKInARow', 1, 'direction', 'up'], ['ExactlyK', 2, 'direction', 'up'], ['Exclude', 'direction', 'left'],
                ['ExactlyKInARow', 1, 'direction', 'down'], ['ExactlyKInARow', 1, 'direction', 'right']]):   # 240
        add(D([C2_, S2, Dr], cross(['color', 'size', 'direction'], ['color', 'size'], cs)))
    base = cross(['color'], ['color'], [['MinimumTrials', 4], ['AtMostKInARow', 1, 'color', None]])
    add(D([C2_], repeat(base, [['MinimumTrials', 8]])))                                                 # 4
    add(D([C2_], repeat(base, [['MinimumTrials', 8], ['AtMostKInARow', 1, 'color', None]])))           # 2
    L3 = {'name': 'letter', 'levels': ['a', 'b', 'c']}
    for i in (0, -1, -2, 100, -100):
        add(D([L3], cross(['letter'], ['letter'], [['Pin', i, 'letter', 'b']])))                       # 2, 2, 2, 0, 0
    return out


# ---- seeded random descriptors -------------------------------------------------------------------------------------------

def random_design(rnd, tmax=8):
    nf = rnd.choice([2, 2, 3])
    names = ['A', 'B', 'C'][:nf]
    factors = []
    for n in names:
        k = rnd.choice([2, 2, 3])
        lv = [f'{n.lower()}{i}' for i in range(k)]
        if rnd.random() < 0.2:
            lv[0] = [lv[0], 2]
        factors.append({'name': n, 'levels': lv})
    design = list(names)
    derived = []
    if rnd.random() < 0.6:
        kind = rnd.choice(['within', 'transition', 'window'])
        if kind == 'within' and nf >= 2:
            a, b = rnd.sample(names, 2)
            la = [x[0] if isinstance(x, list) else x for x in factors[names.index(a)]['levels']]
            lb = [x[0] if isinstance(x, list) else x for x in factors[names.index(b)]['levels']]
            tab = [[x, y] for x in la for y in lb if rnd.random() < 0.5]
            derived.append(within('G', [a, b], preds=(('table', tab), 'else')))
        elif kind == 'transition' or nf < 2:
            derived.append(transition('R', rnd.choice(names)))
        else:
            derived.append(window('W', rnd.choice(names), rnd.choice([1, 2, 3]), rnd.choice([1, 1, 2]),
                                  rnd.choice([None, None, 0, 1, 2, 3]),
                                  preds=rnd.choice([(('allsame',), ('notallsame',)), (('first', names[0].lower() + '0'), 'else')])
                                  ))
            w = derived[-1]['window']
            if w['width'] == 1 and derived[-1]['levels'][0]['pred'][0] != 'first':
                derived[-1]['levels'] = [{'name': 'w0', 'pred': ['first', w['factors'][0].lower() + '0']},
                                         {'name': 'w1', 'else': True}]
            if derived[-1]['levels'][0]['pred'][0] == 'first':
                derived[-1]['levels'][0]['pred'] = ['first', w['factors'][0].lower() + '0']
    if derived and rnd.random() < 0.2 and derived[0]['window'].get('stride', 1) == 1:
        # a second-order derived factor: a transition over the first derived factor
        derived.append(transition('Q', derived[0]['name']))
    factors += derived
    design += [d['name'] for d in derived]

    def rand_constraints(fs, n):
        cs = []
        for _ in range(n):
            f = rnd.choice(fs)
            spec = next(x for x in factors if x['name'] == f)
            lv = [(l[0] if isinstance(l, list) else l) if 'window' not in spec else l['name'] for l in spec['levels']]
            kind = rnd.choice(['AtMostKInARow', 'AtLeastKInARow', 'ExactlyKInARow', 'ExactlyK', 'Pin', 'Exclude',
                               'MinimumTrials', 'AtMostKInARow'])
            if 'window' in spec and spec['window'].get('stride', 1) > 1 and kind != 'ExactlyK':
                continue
            if kind == 'MinimumTrials':
                cs.append([kind, rnd.randint(2, tmax)])
            elif kind == 'Pin':
                if 'window' in spec:
                    continue
                cs.append([kind, rnd.randint(-tmax - 1, tmax + 1), f, rnd.choice(lv)])
            elif kind == 'Exclude':
                cs.append([kind, f, rnd.choice(lv)])
            else:
                cs.append([kind, rnd.randint(1, 4), f, rnd.choice(lv + [None])])
        return cs
    crossable = [n for n in design
                 if not any(d['name'] == n and d['window'].get('stride', 1) > 1 for d in derived)]
    shape = rnd.choice(['cross', 'cross', 'cross', 'repeat', 'multi', 'merge', 'nest'])
    rcc = rnd.random() < 0.7
    if shape == 'cross':
        cr = rnd.sample(crossable, rnd.randint(1, min(2, len(crossable))))
        cons = rand_constraints(design, rnd.randint(0, 2))
        plain = [f for f in factors if 'window' not in f and not any(isinstance(l, list) for l in f['levels'])]
        if plain and rnd.random() < 0.12:
            cons.append(['Sequential', rnd.choice(plain)['name']])
        same = [(a['name'], b['name']) for a in plain for b in plain if a['name'] < b['name'] and len(a['levels']) == len(b['levels'])]
        if same and rnd.random() < 0.12:
            cons.append(['LatinSquare', list(rnd.choice(same))])
        return D(factors, cross(design, cr, cons, rcc))
    if shape == 'repeat':
        cr = rnd.sample(crossable, rnd.randint(1, min(2, len(crossable))))
        inner = cross(design, cr, [c for c in rand_constraints(design, rnd.randint(0, 1)) if c[0] != 'MinimumTrials'])
        outer = [c for c in rand_constraints(design, rnd.randint(0, 1)) if c[0] not in ('Exclude',)]
        return D(factors, repeat(inner, outer + [['MinimumTrials', rnd.randint(4, tmax + 2)]]))
    if shape == 'multi' and len(crossable) >= 2:
        a, b = rnd.sample(crossable, 2)
        return D(factors, multi(design, [[a], [b]], rand_constraints(design, rnd.randint(0, 1)),
                                mode=rnd.choice(['repeat', 'weight', 'equal']),
                                alignment=rnd.choice(['equal preamble', 'parallel start', 'post preamble']), rcc=rcc))
    if shape == 'merge' and len(names) >= 2:
        a, b = names[0], names[1]
        b1 = cross(design, [a], [c for c in rand_constraints(design, 1) if c[0] != 'Exclude'])
        b2 = cross(design, [b], [])
        return D(factors, merge([b1, b2], [c for c in rand_constraints(design, rnd.randint(0, 1)) if c[0] != 'Exclude'],
                                mode=rnd.choice(['repeat', 'weight'])))
    if shape == 'nest' and len(names) >= 2:
        base = [f for f in factors if 'window' not in f]
        a, b = names[0], names[1]
        oc = [c for c in rand_constraints([a], 1) if c[0] in ('AtMostKInARow', 'ExactlyK', 'Pin')]
        ic = [c for c in rand_constraints([b], 1) if c[0] != 'Exclude']
        return D(base, nest(cross([a], [a], oc), cross([n for n in names if n != a], [b], ic)))
    cr = rnd.sample(crossable, 1)
    return D(factors, cross(design, cr, rand_constraints(design, 1), rcc))


def formula_only_corpus():
    """Designs checked through the compiled formula only (C01-C03): RandomGen's rejection loop practically never
    accepts a draw for them, so the RandomGen-driven checks do not take them."""
    out = []
    # three-factor Latin rectangles: each shorter factor's offset wraps at its own level count (12 trials = all 4
    # offset pairs of A, B against C; 15 = one pair reused)
    out.append(D([A2, B2, C3], cross('ABC', '', [['LatinSquare', ['A', 'B', 'C']], ['MinimumTrials', 12]])))
    out.append(D([A2, B2, C3], cross('ABC', 'C', [['LatinSquare', ['A', 'B', 'C']], ['MinimumTrials', 15]])))
    out.append(D([A2, B3, C3], cross('ABC', 'A', [['LatinSquare', ['B', 'A', 'C']], ['MinimumTrials', 9]])))
    out.append(D([A2, B3, C2], cross('ABC', 'AC', [['LatinSquare', ['A', 'B', 'C']], ['MinimumTrials', 8]])))
    # partial last segment with two longest factors; a preamble trial before the first segment; main factor listed first;
    # a rectangle inside a Repeat (the pattern restarts in each repetition)
    out.append(D([A2, B3, C3], cross('ABC', 'B', [['LatinSquare', ['A', 'B', 'C']], ['MinimumTrials', 10]])))
    out.append(D([A2, B2, C3, TRA], cross('ABCR', 'R', [['LatinSquare', ['A', 'B', 'C']], ['MinimumTrials', 11]])))
    out.append(D([A3, B2, C2], cross('ABC', 'A', [['LatinSquare', ['A', 'B', 'C']], ['MinimumTrials', 13]])))
    out.append(D([A2, B3, C2], repeat(cross('ABC', 'B', [['LatinSquare', ['A', 'B', 'C']], ['MinimumTrials', 6]]),
                                      [['MinimumTrials', 12]])))
    return out


def designs(tier, seed, n=None):
    out = fixed_corpus() + randomgen_corpus() + acceptance_corpus()
    rnd = random.Random(seed * 7919 + 17)
    n = n or (400 if tier == 'thorough' else 40)
    tmax = 12 if tier == 'thorough' else 8
    for _ in range(n):
        out.append(random_design(rnd, tmax))
    return out
