"""Shared run context: tiers, seeds, evidence, findings, replay files, scratch directory."""
import atexit
import hashlib
import json
import os
import shutil
import sys
import tempfile
import time

ROOT = os.path.dirname(os.path.dirname(os.path.abspath(__file__)))
# VERIF_OUT_DIR redirects evidence and replay files (used when checks are run against a mutated scratch tree, so that
# the committed evidence always comes from /repo itself)
_OUT = os.environ.get('VERIF_OUT_DIR') or ROOT
EVIDENCE_DIR = os.path.join(_OUT, 'evidence')
REPLAY_DIR = os.path.join(_OUT, 'replays')
FINDINGS_FILE = os.path.join(ROOT, 'known_findings.json')

EXIT_OK, EXIT_VIOLATION, EXIT_HARNESS = 0, 1, 3


class HarnessError(Exception):
    """The machinery, not the library, is wrong (vacuity guard failed, counterexample did not replay...)."""


def stable_hash(obj) -> str:
    return hashlib.sha1(json.dumps(obj, sort_keys=True, default=str).encode()).hexdigest()[:12]


def load_findings():
    try:
        with open(FINDINGS_FILE) as fh:
            return json.load(fh)
    except FileNotFoundError:
        return []


_scratch = None


def enter_scratch():
    """The library writes CNF/OPB/CSV files into the cwd; give it a private directory, removed at exit."""
    global _scratch
    if _scratch is None:
        _scratch = tempfile.mkdtemp(prefix='vf-')
        os.chdir(_scratch)
        atexit.register(lambda: shutil.rmtree(_scratch, ignore_errors=True))
    return _scratch


class Ctx:
    def __init__(self, pid, tier, seed, level):
        self.pid = pid
        self.tier = tier
        self.seed = seed
        self.level = level
        self.t0 = time.time()
        self.queries = {}          # verdict -> count
        self.solver_s = 0.0
        self.samples = []
        self.assumptions = []
        self.functions = []
        self.bounds = {}
        self.outside = []
        self.stubs = []
        self.extra = {}
        self.evaluations = 0
        self.nontrivial = set()
        self.programs = 0
        self.replayed = 0
        self.violations = []       # unlisted, reproduced
        self.known_hit = []
        self.inconclusive = []
        self.harness_errors = []
        self.rule = ''
        self.explanation = ''
        self.exhaustive = False
        self._findings = [f for f in load_findings() if f.get('property') == pid]
        self._printed_known = set()

    # ---- tallies -------------------------------------------------------------------------------------------------
    def q(self, verdict, seconds=0.0, n=1):
        self.queries[verdict] = self.queries.get(verdict, 0) + n
        self.solver_s += seconds

    def sample(self, s, limit=12):
        if len(self.samples) < limit:
            self.samples.append(s)

    def case(self, key, nontrivial=True):
        self.evaluations += 1
        if nontrivial:
            self.nontrivial.add(key if isinstance(key, str) else stable_hash(key))

    def note_inconclusive(self, what):
        self.inconclusive.append(what)
        print(f'INCONCLUSIVE: property={self.pid} {what}')

    def harness_error(self, what):
        self.harness_errors.append(what)
        print(f'HARNESS-ERROR: property={self.pid} {what}')

    def merge(self, sub):
        for k, v in sub.queries.items():
            self.queries[k] = self.queries.get(k, 0) + v
        self.solver_s += sub.solver_s
        for s in sub.samples:
            self.sample(s)
        for key, nt in sub.cases:
            self.case(key, nt)
        self.programs += sub.programs
        for w in sub.inconclusive:
            self.note_inconclusive(w)
        for w in sub.harness_errors:
            self.harness_error(w)
        for key, what, replay in sub.violations:
            self.violation(key, what, replay)
        for k, v in sub.extra.items():
            if isinstance(v, (int, float)):
                self.extra[k] = self.extra.get(k, 0) + v
            elif isinstance(v, list):
                self.extra.setdefault(k, []).extend(v)

    # ---- findings ------------------------------------------------------------------------------------------------
    def violation(self, key, what, replay):
        """A violation already reproduced against the real code. `key` identifies the failing input."""
        self.replayed += 1
        for f in self._findings:
            if f.get('status') == 'known' and _key_match(f.get('key'), key):
                if f['key'] not in self._printed_known:
                    self._printed_known.add(f['key'])
                    print(f"KNOWN-FINDING: property={self.pid} {f.get('what', key)}")
                self.known_hit.append(key)
                return False
        os.makedirs(REPLAY_DIR, exist_ok=True)
        path = os.path.join(REPLAY_DIR, f'{self.pid}-{stable_hash([key, replay])}.json')
        with open(path, 'w') as fh:
            json.dump({'property': self.pid, 'key': key, 'what': what, 'replay': replay,
                       'cmd': f'./check {self.pid} --replay {path}'}, fh, indent=1, default=str)
        print(f'VIOLATION property={self.pid} replay={path}')
        print(f'  key={key} :: {what}')
        self.violations.append({'key': key, 'what': what, 'replay': path})
        return True

    # ---- evidence ------------------------------------------------------------------------------------------------
    def finish(self):
        wall = time.time() - self.t0
        cov = {
            'evaluations': max(self.evaluations, 0),
            'distinct_nontrivial': len(self.nontrivial),
            'rule': self.rule,
            'samples': self.samples if self.samples else ['(none)'],
            'exhaustive': self.exhaustive,
            'functions_encoded_or_executed': self.functions,
            'bounds': self.bounds,
            'outside_the_claim': self.outside,
            'stubs': self.stubs,
            'queries_by_verdict': self.queries,
            'solver_seconds': round(self.solver_s, 3),
            'inconclusive': self.inconclusive[:50],
            'known_findings_rederived': sorted(set(map(str, self.known_hit)))[:50],
            'harness_errors': self.harness_errors[:20],
        }
        if self.level == 'translation_validation':
            cov['programs'] = max(self.programs, self.evaluations)
            cov['disagreements_checked'] = self.replayed
        cov['explanation'] = self.explanation or self.rule
        cov.update(self.extra)
        ev = {
            'property_id': self.pid, 'tier': self.tier, 'seed': self.seed, 'level': self.level,
            'coverage': cov, 'assumptions': self.assumptions, 'wall_s': round(wall, 2),
            'violations': len(self.violations),
        }
        os.makedirs(EVIDENCE_DIR, exist_ok=True)
        tmp = os.path.join(EVIDENCE_DIR, f'.{self.pid}.json.tmp')
        with open(tmp, 'w') as fh:
            json.dump(ev, fh, indent=1, default=str)
        os.replace(tmp, os.path.join(EVIDENCE_DIR, f'{self.pid}.json'))
        verdicts = ' '.join(f'{k}={v}' for k, v in sorted(self.queries.items()))
        print(f'[{self.pid}] tier={self.tier} seed={self.seed} cases={self.evaluations} '
              f'nontrivial={len(self.nontrivial)} queries: {verdicts} solver={self.solver_s:.1f}s wall={wall:.1f}s '
              f'violations={len(self.violations)} known={len(set(map(str, self.known_hit)))} '
              f'inconclusive={len(self.inconclusive)}')
        if self.violations:
            return EXIT_VIOLATION
        if self.harness_errors:
            return EXIT_HARNESS
        return EXIT_OK


class Sub:
    """Picklable recorder with Ctx's tally API, filled in a worker process and merged by Ctx.merge()."""
    def __init__(self, pid, tier, seed):
        self.pid, self.tier, self.seed = pid, tier, seed
        self.queries = {}
        self.solver_s = 0.0
        self.samples = []
        self.cases = []
        self.programs = 0
        self.inconclusive = []
        self.harness_errors = []
        self.violations = []
        self.extra = {}

    def q(self, verdict, seconds=0.0, n=1):
        self.queries[verdict] = self.queries.get(verdict, 0) + n
        self.solver_s += seconds

    def sample(self, s, limit=12):
        if len(self.samples) < limit:
            self.samples.append(s)

    def case(self, key, nontrivial=True):
        self.cases.append((key if isinstance(key, str) else stable_hash(key), nontrivial))

    def note_inconclusive(self, what):
        self.inconclusive.append(what)

    def harness_error(self, what):
        self.harness_errors.append(what)

    def violation(self, key, what, replay):
        self.violations.append((key, what, replay))


class ItemTimeout(BaseException):
    pass


def _alarm(signum, frame):
    raise ItemTimeout()


def _pmap_worker(args):
    import signal
    fn, pid, tier, seed, item = args
    sub = Sub(pid, tier, seed)
    limit = int(os.environ.get('VERIF_ITEM_TIMEOUT', '900' if tier == 'thorough' else '240'))
    try:
        signal.signal(signal.SIGALRM, _alarm)
        signal.alarm(limit)
    except ValueError:
        pass
    try:
        sub.result = fn(sub, item)
    except ItemTimeout:
        sub.result = 'timeout'
        sub.note_inconclusive(f'item exceeded {limit}s and was abandoned: {item!r:.300}')
    except HarnessError as e:
        sub.result = None
        sub.harness_error(f'{item!r:.200}: {e}')
    except Exception as e:
        import traceback
        sub.result = None
        sub.harness_error(f'{item!r:.200}: {type(e).__name__}: {e} :: {traceback.format_exc()[-600:]}')
    finally:
        try:
            signal.alarm(0)
        except ValueError:
            pass
    return sub


_PRELOADED = False


def _preload():
    """Import everything heavy in the parent before forking: an item time-out (SIGALRM) that fires in the middle of a
    first import inside a worker leaves a half-initialised module behind, and every later item of that worker then
    fails for a reason that has nothing to do with the library."""
    global _PRELOADED
    if _PRELOADED:
        return
    _PRELOADED = True
    import importlib
    for m in ('numpy', 'numpy.ctypeslib', 'pandas', 'z3', 'pycryptosat', 'pycmsgen', 'pyunigen', 'sweetpea',
              'sweetpea._internal.server', 'sweetpea._internal.sampling_strategy.random',
              'sweetpea._internal.sampling_strategy.iterate_sat', 'sweetpea._internal.sampling_strategy.cmsgen',
              'sweetpea._internal.sampling_strategy.unigen', 'sweetpea._internal.sampling_strategy.iterate',
              'sweetpea._internal.sampling_strategy.uniform', 'sweetpea._internal.sampling_strategy.iterate_ilp',
              'sweetpea._internal.core.generate.tools', 'sweetpea._internal.core.generate.sample_non_uniform',
              'sweetpea._internal.core.generate.is_satisfiable', 'sweetpea._internal.core.generate.utility'):
        try:
            importlib.import_module(m)
        except Exception:
            pass


def pmap(ctx, fn, items, procs=None):
    """Run fn(sub, item) for every item in forked workers; merge tallies into ctx in item order.
    fn must be a module-level function; items must be picklable. Returns the list of fn results."""
    import multiprocessing as mp
    items = list(items)
    _preload()
    procs = procs or min(int(os.environ.get('VERIF_PROCS', '14')), max(1, len(items)))
    args = [(fn, ctx.pid, ctx.tier, ctx.seed, it) for it in items]
    if procs <= 1 or len(items) <= 1:
        subs = [_pmap_worker(a) for a in args]
    else:
        from concurrent.futures import ProcessPoolExecutor
        from concurrent.futures.process import BrokenProcessPool
        try:
            with ProcessPoolExecutor(procs, mp_context=mp.get_context('fork')) as pool:
                subs = list(pool.map(_pmap_worker, args, chunksize=1))
        except BrokenProcessPool:
            raise HarnessError('a worker process died (native code called exit or crashed)')
    out = []
    for sub in subs:
        ctx.merge(sub)
        out.append(sub.result)
    return out


def _key_match(pattern, key):
    if pattern == key:
        return True
    if isinstance(pattern, str) and isinstance(key, str) and pattern.endswith('*'):
        return key.startswith(pattern[:-1])
    return False


class quiet:
    """Silence the library's progress prints (stdout only)."""
    def __enter__(self):
        self._old = sys.stdout
        self._null = open(os.devnull, 'w')
        sys.stdout = self._null
        return self

    def __exit__(self, *a):
        sys.stdout = self._old
        self._null.close()
        return False
