"""Design descriptors (plain JSON-able data) and their construction through the real library constructors.

descriptor = {'factors': [FSPEC...], 'block': BSPEC}
FSPEC basic   = {'name': 'A', 'levels': ['a0', ['a1', 2], ...]}
FSPEC derived = {'name': 'D', 'window': {'kind': 'within'|'transition'|'window', 'factors': [names], 'width': w,
                 'stride': s, 'start': st|None}, 'levels': [{'name': 'd0', 'pred': PRED, 'weight': 1}, ..,
                 {'name': 'dz', 'else': True}]}
PRED = ['eq'] | ['ne'] | ['same'] | ['diff'] | ['first', name] | ['table', [argtuple,...]]   (see make_pred)
BSPEC = {'kind': 'cross', 'design': [...], 'crossing': [...], 'constraints': [C...], 'rcc': True}
      | {'kind': 'multi', 'design', 'crossings': [[..]..], 'constraints', 'rcc', 'mode', 'alignment'}
      | {'kind': 'repeat', 'block': BSPEC, 'constraints'}
      | {'kind': 'merge', 'blocks': [BSPEC..], 'constraints', 'mode', 'alignment'}
      | {'kind': 'nest', 'outer': BSPEC, 'inner': BSPEC, 'constraints'}
C = ['MinimumTrials', n] | ['Exclude', f, l] | ['Pin', i, f, l] | ['AtMostKInARow', k, f, l|None]
  | ['AtLeastKInARow', k, f, l|None] | ['ExactlyKInARow', k, f, l|None] | ['ExactlyK', k, f, l|None]
  | ['Sequential', f] | ['LatinSquare', [f...]]
"""
import itertools


# ---- predicates ------------------------------------------------------------------------------------------------------

def window_of(fspec):
    w = dict(fspec['window'])
    kind = w['kind']
    if kind == 'within':
        w.update(width=1, stride=1)
        w.setdefault('start', None)
    elif kind == 'transition':
        w.update(width=2, stride=1, start=1)
    else:
        w.setdefault('stride', 1)
        w.setdefault('start', None)
    return w


def canon_args(args, width):
    """Library-style predicate arguments -> hashable canonical tuple.
    width 1: (name, name, ...);  width>1: ((oldest..newest), ...) per factor."""
    if width == 1:
        return tuple(args)
    return tuple(tuple(d[j] for j in range(-width + 1, 1)) for d in args)


def pred_holds(pred, cargs, width):
    """Evaluate a predicate spec on canonical arguments."""
    op = pred[0]
    if op == 'table':
        return tuple(_tup(cargs)) in {_tup(a) for a in pred[1]}
    if width == 1:
        if op == 'eq':
            return cargs[0] == cargs[1]
        if op == 'ne':
            return cargs[0] != cargs[1]
        if op == 'first':
            return cargs[0] == pred[1]
    else:
        d = cargs[0]
        if op == 'same':
            return d[0] == d[-1]
        if op == 'diff':
            return d[0] != d[-1]
        if op == 'first':
            return d[-1] == pred[1]
        if op == 'allsame':
            return all(x == d[0] for x in d)
        if op == 'notallsame':
            return not all(x == d[0] for x in d)
    raise ValueError(f'bad predicate {pred} for width {width}')


def _tup(x):
    if isinstance(x, (list, tuple)):
        return tuple(_tup(y) for y in x)
    return x


def make_pred(pred, width):
    def p(*args):
        return bool(pred_holds(pred, canon_args(args, width), width))
    return p


# ---- construction through the real constructors -----------------------------------------------------------------------

class Built:
    def __init__(self):
        self.factors = {}      # name -> real Factor object
        self.block = None
        self.blocks = []       # every block object built (inner ones first)
        self.constraints = []  # every user constraint object


def build_factors(desc, built):
    import sweetpea as sp
    for fs in desc['factors']:
        name = fs['name']
        if 'window' not in fs:
            levels = []
            for l in fs['levels']:
                if isinstance(l, (list, tuple)):
                    levels.append(sp.Level(l[0], l[1]))
                else:
                    levels.append(l)
            built.factors[name] = sp.Factor(name, levels)
        else:
            w = window_of(fs)
            srcs = [built.factors[n] for n in w['factors']]
            levels = []
            for ls in fs['levels']:
                if ls.get('else'):
                    levels.append(sp.ElseLevel(ls['name'], ls.get('weight', 1)))
                    continue
                fn = make_pred(ls['pred'], w['width'])
                if w['kind'] == 'within':
                    win = sp.WithinTrial(fn, srcs)
                elif w['kind'] == 'transition':
                    win = sp.Transition(fn, srcs)
                else:
                    win = sp.Window(fn, srcs, w['width'], w['stride'], w['start'])
                levels.append(sp.DerivedLevel(ls['name'], win, ls.get('weight', 1)))
            built.factors[name] = sp.Factor(name, levels)


def build_constraint(c, built):
    import sweetpea as sp
    kind = c[0]
    F = built.factors
    if kind == 'MinimumTrials':
        ct = sp.MinimumTrials(c[1])
    elif kind == 'Exclude':
        ct = sp.Exclude((F[c[1]], c[2]))
    elif kind == 'Pin':
        ct = sp.Pin(c[1], (F[c[2]], c[3]))
    elif kind in ('AtMostKInARow', 'AtLeastKInARow', 'ExactlyKInARow', 'ExactlyK'):
        cls = getattr(sp, kind)
        ct = cls(c[1], F[c[2]] if c[3] is None else (F[c[2]], c[3]))
    elif kind == 'Sequential':
        ct = sp.Sequential(F[c[1]])
    elif kind == 'LatinSquare':
        ct = sp.LatinSquare([F[n] for n in c[1]])
    else:
        raise ValueError(kind)
    built.constraints.append(ct)
    return ct


def build_block(bs, built):
    import sweetpea as sp
    F = built.factors
    cs = [build_constraint(c, built) for c in bs.get('constraints', [])]
    kind = bs['kind']
    if kind == 'cross':
        b = sp.CrossBlock([F[n] for n in bs['design']], [F[n] for n in bs['crossing']], cs, bs.get('rcc', True))
    elif kind == 'multi':
        kw = {}
        if 'mode' in bs:
            kw['mode'] = bs['mode']
        if 'alignment' in bs:
            kw['alignment'] = bs['alignment']
        b = sp.MultiCrossBlock([F[n] for n in bs['design']], [[F[n] for n in c] for c in bs['crossings']], cs,
                               bs.get('rcc', True), **kw)
    elif kind == 'repeat':
        inner = build_block(bs['block'], built)
        b = sp.Repeat(inner, cs)
    elif kind == 'merge':
        inner = [build_block(x, built) for x in bs['blocks']]
        kw = {}
        if 'mode' in bs:
            kw['mode'] = bs['mode']
        if bs.get('alignment') is not None:
            kw['alignment'] = bs['alignment']
        # (without the optional argument when there are no constraints, as users write it)
        b = sp.Merge(inner, cs, **kw) if cs else sp.Merge(inner, **kw)
    elif kind == 'nest':
        outer = build_block(bs['outer'], built)
        inner = build_block(bs['inner'], built)
        if bs.get('alignment'):
            b = sp.Nest(outer, inner, cs, bs['alignment'])
        else:
            b = sp.Nest(outer, inner, cs) if cs else sp.Nest(outer, inner)
    else:
        raise ValueError(kind)
    built.blocks.append(b)
    return b


def build(desc):
    """Fresh objects for everything. Raises whatever the real constructors raise."""
    built = Built()
    build_factors(desc, built)
    built.block = build_block(desc['block'], built)
    return built


# ---- the compiled formula and the variable table ------------------------------------------------------------------------

def compiled_clauses(block):
    """Clause list of the real pipeline (server.build_cnf: build_backend_request + combine_cnf_with_requests)."""
    from sweetpea._internal.server import build_cnf
    return build_cnf(block).as_list_of_list_of_ints()


def factor_key(f):
    """(name, hidden?) of a real factor object."""
    from sweetpea._internal.primitive import HiddenName
    if isinstance(f.name, HiddenName):
        return (f.name.name, True)
    return (f.name, False)


def variable_table(block):
    """{(t0, (name, hidden), level_index): variable} from the real encoder, t0 zero-based."""
    table = {}
    T = block.trials_per_sample()
    for f in block.act_design:
        sc = block.sustain_count(f)
        for t in range(T):
            if not f.applies_to_trial(t // sc + 1):
                continue
            for li, l in enumerate(f.levels):
                table[(t, factor_key(f), li)] = block._encode_variable(f, l, t + 1)
    return table


def describe(desc):
    """Short human-readable form for evidence samples."""
    def b(bs):
        k = bs['kind']
        cs = ','.join('/'.join(str(x) for x in c) for c in bs.get('constraints', []))
        if k == 'cross':
            return f"Cross({bs['design']} x {bs['crossing']}{'' if bs.get('rcc', True) else ' rcc=F'} [{cs}])"
        if k == 'multi':
            return f"Multi({bs['design']} x {bs['crossings']} {bs.get('mode', 'equal')}/{bs.get('alignment', 'equal preamble')} [{cs}])"
        if k == 'repeat':
            return f"Repeat({b(bs['block'])} [{cs}])"
        if k == 'merge':
            return f"Merge({[b(x) for x in bs['blocks']]} {bs.get('mode', 'repeat')} [{cs}])"
        return f"Nest({b(bs['outer'])}, {b(bs['inner'])} [{cs}])"
    fs = []
    for f in desc['factors']:
        if 'window' in f:
            w = f['window']
            fs.append(f"{f['name']}={w['kind']}({w['factors']},w={w.get('width')},s={w.get('stride')},st={w.get('start')})"
                      f"[{','.join(l['name'] for l in f['levels'])}]")
        else:
            fs.append(f"{f['name']}{f['levels']}")
    return '; '.join(fs) + ' :: ' + b(desc['block'])
