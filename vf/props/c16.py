"""C16 Trial count follows the documented rules; every sequence has that length.

(a) Engine B: per design shape the integer parameters (MinimumTrials n, a level weight w, a window start) are SYMBOLIC:
    CrossHair executes the real constructor + trials_per_sample() and the postcondition compares with the closed-form
    documented arithmetic written in the harness (see vf/xh/c16_harness.py); verdict 'Confirmed over all paths' or a
    counterexample that is re-run concretely.
(b) Engine A corpus: for every descriptor the documented arithmetic of vf/ref.py (rule 1) is compared with
    block.trials_per_sample(); the length of every sequence is part of R (C01/C02/C04), and 2 sequences per strategy
    are checked for length concretely.
"""
from ..common import HarnessError, pmap, quiet, stable_hash
from ..corpus import designs
from ..designs import describe, build
from ..enginea import Rejected
from ..ref import analyse, Outside, Refused
from . import c24, c25

LEVEL = 'other'


def trial_count(sub, desc):
    key = stable_hash(desc)
    try:
        sem = analyse(desc)
    except Outside as e:
        sub.case(key, nontrivial=False)
        return 'outside'
    except Refused as e:
        sub.case(key, nontrivial=False)
        return 'ref-refuses'
    try:
        with quiet():
            built = build(desc)
            T = built.block.trials_per_sample()
    except Exception:
        sub.case(key, nontrivial=False)
        return 'rejected'
    sub.case(key, nontrivial=True)
    sub.sample({'design': describe(desc), 'documented': sem.T, 'reported': T}, limit=6)
    if sem.status == 'ok' and T != sem.T:
        sub.violation(f'trials:{key}', f'{describe(desc)}: documented rules give {sem.T} trials, block reports {T}',
                      {'desc': desc, 'expected': sem.T, 'query': 'trials'})
        return 'violation'
    if sem.status != 'ok':
        return 'empty'
    # lengths of real sequences, per strategy (concrete link)
    import sweetpea as sp
    from ..sat import solve
    from ..designs import compiled_clauses
    try:
        with quiet():
            has_model = (not built.block.show_errors()) and solve(compiled_clauses(built.block))[0]
    except Exception:
        return 'ok'
    if not has_model:
        return 'ok'
    for name in ('IterateSATGen', 'RandomGen', 'CMSGen', 'UniGen'):
        if name == 'RandomGen' and built.block.complex_factors_or_constraints:
            continue   # rejection sampling may take unboundedly long; RandomGen's lengths are C04's subject
        if name == 'UniGen':
            # native sampler: child process with a hard time limit (it cannot be interrupted from Python)
            from .c08 import child_lengths
            lens = child_lengths(desc, name, 120)
            if lens is None:
                continue
            out = [{k: [None] * n for k, n in d.items()} for d in lens]
        else:
            try:
                with quiet():
                    out = sp.synthesize_trials(built.block, 2, getattr(sp, name))
            except Exception:
                continue   # exceptions are C08's subject
        for seq in out:
            bad = {k: len(v) for k, v in seq.items() if len(v) != sem.T}
            if bad:
                sub.violation(f'length:{name}:{key}', f'{describe(desc)}: {name} returned columns of length {bad}, '
                              f'documented trial count {sem.T}', {'desc': desc, 'expected': sem.T, 'query': 'length',
                                                                  'strategy': name})
                break
    return 'ok'


def smgen_designs():
    """SMGen (experimental: its own randomised search, no formula) is outside the corpus sweep; the lengths of what it
    returns are checked on this fixed list only, which includes the two shapes for which it is known to return short
    sequences (known findings) and the transition/MinimumTrials shapes where its length arithmetic is exercised."""
    from ..corpus import D, A2, A3, B2, C3, TRA, cross, repeat, within
    G = within('G', ['A', 'C'], preds=(('table', [['a0', 'c0'], ['a1', 'c1']]), 'else'))
    return [D([A3, B2], cross('AB', 'AB')),
            D([A3, B2, TRA], cross('ABR', 'AR')),
            D([A3, B2, TRA], cross('ABR', 'AR', [['MinimumTrials', 8]])),
            D([A3, B2, TRA], cross('ABR', 'AR', [['MinimumTrials', 12]])),
            D([A3, B2, TRA], cross('ABR', 'AR', [['MinimumTrials', 13]])),
            D([A3, B2], cross('AB', 'A', [['MinimumTrials', 7]])),
            D([A3, B2], repeat(cross('AB', 'A'), [['MinimumTrials', 8]])),
            D([A2, C3, G], cross('ACG', 'G', [['MinimumTrials', 3]]))]


def smgen_lengths(sub, desc):
    from .c08 import child_lengths
    from ..common import stable_hash
    key = stable_hash(desc)
    sub.case('smgen:' + key)
    try:
        T = analyse(desc).T
    except Exception:
        return 'outside'
    lens = child_lengths(desc, 'SMGen', 60)
    if lens is None:
        return 'no-answer'       # refused (documented) or did not finish
    for d in lens:
        bad = {k: n for k, n in d.items() if n != T}
        if bad:
            sub.violation(f'length:SMGen:{key}', f'{describe(desc)}: SMGen returned columns of length {bad}, documented '
                          f'trial count {T}', {'desc': desc, 'expected': T, 'query': 'smgen'})
            return 'violation'
    return 'ok'


def replay(data):
    import sweetpea as sp
    if data.get('query') == 'smgen':
        from .c08 import child_lengths
        lens = child_lengths(data['desc'], 'SMGen', 60)
        return lens is not None and any(n != data['expected'] for d in lens for n in d.values())
    if data.get('query') == 'crosshair':
        from ..xhair import replay_harness
        return replay_harness(data)
    with quiet():
        built = build(data['desc'])
    if data['query'] == 'trials':
        return built.block.trials_per_sample() != data['expected']
    with quiet():
        out = sp.synthesize_trials(built.block, 2, getattr(sp, data['strategy']))
    return any(len(v) != data['expected'] for seq in out for v in seq.values())


XH_HEADER = '''
import sweetpea as sp

def _conc(v, lo, hi):
    for c in range(lo, hi + 1):
        if v == c:
            return c
    raise AssertionError('outside the precondition')

def _ceil_to(n, size):
    return -(-n // size) * size if size else n
'''


def _I(s):
    return '\n'.join('    ' + l for l in s.strip('\n').splitlines())


def xh_cases(tier):
    """Symbolic MinimumTrials n, level weight w and window start; closed forms per the CrossBlock/Merge/Nest docs."""
    from ..xhair import Case
    out = []
    # CrossBlock: T = max(n, preamble + size), size = (w + 1) * 2 with a weight-w level crossed with a 2-level factor
    out.append(Case('cross_weight_mintrials', 'n: int, w: int',
                    _I("n = _conc(n, 0, 12); w = _conc(w, 1, 3)\n"
                       "A = sp.Factor('A', [sp.Level('a0', w), 'a1']); B = sp.Factor('B', ['b0', 'b1'])\n"
                       "return sp.CrossBlock([A, B], [A, B], [sp.MinimumTrials(n)]).trials_per_sample()"),
                    _I('return 0 <= n <= 12 and 1 <= w <= 3'), _I('return _ret == max(n, (w + 1) * 2)'),
                    info={'shape': 'CrossBlock, weighted level, MinimumTrials(n)', 'closed_form': 'max(n, (w+1)*2)'}))
    # window start st on a crossed width-2 window factor: preamble = st
    out.append(Case('cross_window_start', 'n: int, st: int',
                    _I("n = _conc(n, 0, 10); st = _conc(st, 0, 4)\n"
                       "A = sp.Factor('A', ['a0', 'a1']); B = sp.Factor('B', ['b0', 'b1'])\n"
                       "W = sp.Factor('W', [sp.DerivedLevel('w0', sp.Window(lambda a: a[0] == 'a0', [A], 2, 1, st)), sp.ElseLevel('w1')])\n"
                       "return sp.CrossBlock([A, B, W], [B, W], [sp.MinimumTrials(n)]).trials_per_sample()"),
                    _I('return 0 <= n <= 10 and 0 <= st <= 4'), _I('return _ret == max(n, st + 4)'),
                    info={'shape': 'CrossBlock with a crossed Window(start st)', 'closed_form': 'max(n, st + 4)'}))
    # Exclude with require_complete_crossing=False: one of three levels removed
    out.append(Case('cross_exclude', 'n: int',
                    _I("n = _conc(n, 0, 9)\nA = sp.Factor('A', ['a0', 'a1', 'a2']); B = sp.Factor('B', ['b0', 'b1'])\n"
                       "return sp.CrossBlock([A, B], [A, B], [sp.Exclude((A, 'a2')), sp.MinimumTrials(n)], False).trials_per_sample()"),
                    _I('return 0 <= n <= 9'), _I('return _ret == max(n, 4)'),
                    info={'shape': 'CrossBlock, Exclude, rcc=False', 'closed_form': 'max(n, 4)'}))
    # MultiCrossBlock: maximum over crossings
    out.append(Case('multi_max', 'n: int, w: int',
                    _I("n = _conc(n, 0, 9); w = _conc(w, 1, 3)\n"
                       "A = sp.Factor('A', [sp.Level('a0', w), 'a1']); B = sp.Factor('B', ['b0', 'b1']); C = sp.Factor('C', ['c0', 'c1', 'c2'])\n"
                       "return sp.MultiCrossBlock([A, B, C], [[A], [C]], [sp.MinimumTrials(n)], mode='repeat').trials_per_sample()"),
                    _I('return 0 <= n <= 9 and 1 <= w <= 3'), _I('return _ret == max(n, w + 1, 3)'),
                    info={'shape': 'MultiCrossBlock([[A],[C]]) repeat', 'closed_form': 'max(n, w+1, 3)'}))
    # Repeat: MinimumTrials on the repetition
    out.append(Case('repeat_mintrials', 'n: int',
                    _I("n = _conc(n, 0, 12)\nA = sp.Factor('A', ['a0', 'a1']); B = sp.Factor('B', ['b0', 'b1'])\n"
                       "return sp.Repeat(sp.CrossBlock([A, B], [A, B], []), [sp.MinimumTrials(n)]).trials_per_sample()"),
                    _I('return 0 <= n <= 12'), _I('return _ret == max(n, 4)'),
                    info={'shape': 'Repeat(CrossBlock 2x2, MinimumTrials(n))', 'closed_form': 'max(n, 4)'}))
    # Nest: product; MinimumTrials on the outer block counts outer trials
    out.append(Case('nest_product', 'n: int, w: int',
                    _I("n = _conc(n, 0, 6); w = _conc(w, 1, 3)\n"
                       "A = sp.Factor('A', ['a0', 'a1']); B = sp.Factor('B', [sp.Level('b0', w), 'b1'])\n"
                       "return sp.Nest(sp.CrossBlock([A], [A], [sp.MinimumTrials(n)]), sp.CrossBlock([B], [B], [])).trials_per_sample()"),
                    _I('return 0 <= n <= 6 and 1 <= w <= 3'), _I('return _ret == max(n, 2) * (w + 1)'),
                    info={'shape': 'Nest(outer MinimumTrials(n), inner weighted)', 'closed_form': 'max(n,2)*(w+1)'}))
    return out


def run(ctx):
    ctx.functions += ['cross_block.trials_per_sample', 'cross_block._trials_per_sample_for_crossing',
                      'cross_block.__trials_required_for_crossing', 'cross_block.crossing_size / __count_exclusions',
                      'cross_block.preamble_size', 'constraint.MinimumTrials.apply', 'block.Block.__init__ (min_trials)',
                      'cross_block._create (crossing weights)', 'cross_block.Nest / Merge / Repeat']
    ctx.bounds = {'corpus': 'fixed corpus + nest designs + mode x alignment grid + seeded random descriptors'}
    ctx.outside += ['designs the reference refuses to judge (ambiguous documentation)', 'SMGen (C29)']
    ctx.assumptions += ['documented arithmetic as implemented in vf/ref.py analyse() / the harness closed forms']
    ctx.rule = 'one case per descriptor; non-trivial = constructor accepts and the documented rules apply'
    ctx.explanation = ('Trial-count arithmetic: symbolic integer parameters through the real constructors under CrossHair '
                       '(when the harness is available) plus a corpus comparison against the documented rules; sequence '
                       'lengths are decided for all models by C01/C02 and sampled here per strategy.')
    ds = designs(ctx.tier, ctx.seed) + c25.nest_designs(ctx.tier, ctx.seed) + c24.extra_designs(ctx.tier, ctx.seed)
    res = pmap(ctx, trial_count, ds)
    sm = pmap(ctx, smgen_lengths, smgen_designs())
    ctx.extra['smgen_outcomes'] = {str(k): sm.count(k) for k in set(sm)}
    ctx.extra['design_outcomes'] = {str(k): res.count(k) for k in set(res)}
    from ..xhair import run_cases
    run_cases(ctx, XH_HEADER, xh_cases(ctx.tier), timeout=600 if ctx.tier == 'thorough' else 120, path_timeout=40,
              module_tag='c16', keyfn=lambda c, kw: f'symbolic:{c.name}')
