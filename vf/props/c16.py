"""C16 Trial count follows the documented rules; every sequence has that length.

(a) Engine B: per design shape the integer parameters (MinimumTrials n, a level weight w, a window start) are SYMBOLIC:
    CrossHair executes the real constructor + trials_per_sample() and the postcondition compares with the closed-form
    documented arithmetic written in the harness (see vf/xh/c16_harness.py); verdict 'Confirmed over all paths' or a
    counterexample that is re-run concretely.
(b) Engine A corpus: for every descriptor the documented arithmetic of vf/ref.py (rule 1) is compared with
    block.trials_per_sample(); the length of every sequence is part of R (C01/C02/C04), and 2 sequences per strategy
    are checked for length concretely.
"""
from ..common import HarnessError, pmap, quiet, stable_hash
from ..corpus import designs
from ..designs import describe, build
from ..enginea import Rejected
from ..ref import analyse, Outside, Refused
from . import c24, c25

LEVEL = 'other'


def trial_count(sub, desc):
    key = stable_hash(desc)
    try:
        sem = analyse(desc)
    except Outside as e:
        sub.case(key, nontrivial=False)
        return 'outside'
    except Refused as e:
        sub.case(key, nontrivial=False)
        return 'ref-refuses'
    try:
        with quiet():
            built = build(desc)
            T = built.block.trials_per_sample()
    except Exception:
        sub.case(key, nontrivial=False)
        return 'rejected'
    sub.case(key, nontrivial=True)
    sub.sample({'design': describe(desc), 'documented': sem.T, 'reported': T}, limit=6)
    if sem.status == 'ok' and T != sem.T:
        sub.violation(f'trials:{key}', f'{describe(desc)}: documented rules give {sem.T} trials, block reports {T}',
                      {'desc': desc, 'expected': sem.T, 'query': 'trials'})
        return 'violation'
    if sem.status != 'ok':
        return 'empty'
    # lengths of real sequences, per strategy (concrete link)
    import sweetpea as sp
    from ..sat import solve
    from ..designs import compiled_clauses
    try:
        with quiet():
            has_model = (not built.block.show_errors()) and solve(compiled_clauses(built.block))[0]
    except Exception:
        return 'ok'
    if not has_model:
        return 'ok'
    for name in ('IterateSATGen', 'RandomGen', 'CMSGen', 'UniGen'):
        if name == 'RandomGen' and built.block.complex_factors_or_constraints:
            continue   # rejection sampling may take unboundedly long; RandomGen's lengths are C04's subject
        try:
            with quiet():
                out = sp.synthesize_trials(built.block, 2, getattr(sp, name))
        except Exception:
            continue   # exceptions are C08's subject
        for seq in out:
            bad = {k: len(v) for k, v in seq.items() if len(v) != sem.T}
            if bad:
                sub.violation(f'length:{name}:{key}', f'{describe(desc)}: {name} returned columns of length {bad}, '
                              f'documented trial count {sem.T}', {'desc': desc, 'expected': sem.T, 'query': 'length',
                                                                  'strategy': name})
                break
    return 'ok'


def replay(data):
    import sweetpea as sp
    if data.get('query') == 'crosshair':
        from ..xhair import replay_harness
        return replay_harness(data)
    with quiet():
        built = build(data['desc'])
    if data['query'] == 'trials':
        return built.block.trials_per_sample() != data['expected']
    with quiet():
        out = sp.synthesize_trials(built.block, 2, getattr(sp, data['strategy']))
    return any(len(v) != data['expected'] for seq in out for v in seq.values())


def run(ctx):
    ctx.functions += ['cross_block.trials_per_sample', 'cross_block._trials_per_sample_for_crossing',
                      'cross_block.__trials_required_for_crossing', 'cross_block.crossing_size / __count_exclusions',
                      'cross_block.preamble_size', 'constraint.MinimumTrials.apply', 'block.Block.__init__ (min_trials)',
                      'cross_block._create (crossing weights)', 'cross_block.Nest / Merge / Repeat']
    ctx.bounds = {'corpus': 'fixed corpus + nest designs + mode x alignment grid + seeded random descriptors'}
    ctx.outside += ['designs the reference refuses to judge (ambiguous documentation)', 'SMGen (C29)']
    ctx.assumptions += ['documented arithmetic as implemented in vf/ref.py analyse() / the harness closed forms']
    ctx.rule = 'one case per descriptor; non-trivial = constructor accepts and the documented rules apply'
    ctx.explanation = ('Trial-count arithmetic: symbolic integer parameters through the real constructors under CrossHair '
                       '(when the harness is available) plus a corpus comparison against the documented rules; sequence '
                       'lengths are decided for all models by C01/C02 and sampled here per strategy.')
    ds = designs(ctx.tier, ctx.seed) + c25.nest_designs(ctx.tier, ctx.seed) + c24.extra_designs(ctx.tier, ctx.seed)
    res = pmap(ctx, trial_count, ds)
    ctx.extra['design_outcomes'] = {str(k): res.count(k) for k in set(res)}
    try:
        from ..xh import c16_harness
    except ImportError:
        c16_harness = None
    if c16_harness is not None:
        from ..xhair import run_harness_module
        run_harness_module(ctx, c16_harness)
