"""C09 Without-replacement samplers return distinct sequences, as many as exist.

available := number of distinct trial assignments of the design: for IterateSATGen the projected model count of the real
compiled formula (SAT enumeration with blocking clauses over the trial variables), for RandomGen the number of accepted
candidates of the exhaustive candidate enumeration (Engine C); C02/C05 tie both to the reference.  The real strategies
are then called with requested in {1, available-1, available, available+3} and must return min(requested, available)
sequences, pairwise distinct as assignments; equal prints are tolerated only up to the number of copy assignments of
weighted levels of uncrossed factors.  That the blocking clause excludes exactly the previous solution for ANY solver
behaviour is decided symbolically in C27.
"""
import importlib
from collections import Counter

from ..common import pmap, stable_hash, quiet, HarnessError
from ..corpus import designs
from ..designs import describe
from ..enginea import compile_design, Rejected
from ..exhaust import enumerate_candidates, TooMany, run_to_x
from ..randcheck import plain, INTERNAL
from ..ref import Outside
from ..sat import Incremental
from .c02 import exhaust_iterate_sat

LEVEL = 'other'


def copy_multiplicity(comp, names):
    """How many trial assignments print as `names`: product over trials of the number of same-named levels."""
    m = 1
    for f in comp.block.act_design:
        if not isinstance(f.name, str):
            continue
        for v in names.get(f.name, []):
            if v == '':
                continue
            m *= sum(1 for l in f.levels if l.name == v)
    return m


def one(sub, item):
    desc, limit = item
    key = stable_hash(desc)
    label = describe(desc)
    try:
        comp = compile_design(desc, need_ref=False)
    except (Outside, Rejected) + INTERNAL:
        return 'skip'
    if comp.errors:
        return 'errors'
    import sweetpea as sp
    # ---- IterateSATGen -----------------------------------------------------------------------------------------
    inc = Incremental(comp.clauses)
    avail = 0
    while avail <= limit:
        sat, m = inc.solve()
        if not sat:
            break
        avail += 1
        inc.add([(-v if m[v] else v) for v in range(1, comp.support + 1)])
    if avail > limit:
        return 'too-many'
    sub.case(key, nontrivial=avail >= 2)
    sub.sample({'design': label, 'available': avail}, limit=5)
    reqs = sorted({r for r in (1, avail - 1, avail, avail + 3) if r >= 1})
    for req in reqs:
        sols, res = exhaust_iterate_sat(comp, req)
        xs = [tuple(sorted(abs(l) for l in s if l > 0 and abs(l) <= comp.support)) for s in sols]
        want = min(req, avail)
        if len(res) != want or len(set(xs)) != len(xs):
            sub.violation(f'iteratesat:{key}', f'{label}: IterateSATGen asked for {req} of {avail} returned {len(res)} '
                          f'({len(set(xs))} distinct)', {'desc': desc, 'query': 'iteratesat', 'req': req, 'avail': avail})
            break
        prints = Counter(stable_hash(s) for s in res)
        if any(c > copy_multiplicity(comp, s) for s in res for c in [prints[stable_hash(s)]]):
            sub.violation(f'iteratesat-prints:{key}', f'{label}: IterateSATGen returned identical prints beyond weighted '
                          f'copies', {'desc': desc, 'query': 'iteratesat', 'req': req, 'avail': avail})
            break
    # ---- RandomGen / IterateGen ------------------------------------------------------------------------------------
    try:
        info, cands = enumerate_candidates(comp.block, limit * 4)
    except (TooMany,) + INTERNAL:
        return 'ok-sat-only'
    accepted = [c for c in cands if c.accepted]
    ravail = len({frozenset(run_to_x(comp.block, c.run)) for c in accepted})
    rmod = importlib.import_module('sweetpea._internal.sampling_strategy.random')
    strategies = [('RandomGen', sp.RandomGen)]
    if not comp.block.complex_factors_or_constraints:
        strategies.append(('IterateGen', sp.IterateGen))
    for name, strat in strategies:
        for req in sorted({r for r in (1, ravail - 1, ravail, ravail + 3) if r >= 1}):
            with quiet():
                res = sp.synthesize_trials(comp.block, req, strat)
            want = min(req, ravail)
            prints = Counter(stable_hash(plain(s)) for s in res)
            over = [s for s in res if prints[stable_hash(plain(s))] > copy_multiplicity(comp, s)]
            if len(res) != want or over:
                sub.violation(f'{name.lower()}:{key}', f'{label}: {name} asked for {req} of {ravail} returned {len(res)}'
                              f'{"; identical sequences beyond weighted copies" if over else ""}',
                              {'desc': desc, 'query': name, 'req': req, 'avail': ravail})
                break
    return 'ok'


def replay(data):
    import sweetpea as sp
    comp = compile_design(data['desc'], need_ref=False)
    req, avail = data['req'], data['avail']
    if data['query'] == 'iteratesat':
        sols, res = exhaust_iterate_sat(comp, req)
        xs = [tuple(sorted(abs(l) for l in s if l > 0 and abs(l) <= comp.support)) for s in sols]
        prints = Counter(stable_hash(s) for s in res)
        return len(res) != min(req, avail) or len(set(xs)) != len(xs) or \
            any(prints[stable_hash(s)] > copy_multiplicity(comp, s) for s in res)
    with quiet():
        res = sp.synthesize_trials(comp.block, req, getattr(sp, data['query']))
    prints = Counter(stable_hash(plain(s)) for s in res)
    return len(res) != min(req, avail) or any(prints[stable_hash(plain(s))] > copy_multiplicity(comp, s) for s in res)


def run(ctx):
    limit = 1500 if ctx.tier == 'thorough' else 150
    ctx.functions += ['core.generate.sample_non_uniform.compute_solutions / update_file',
                      'sampling_strategy.random.RandomGen.__sample (used_keys bookkeeping)',
                      'sampling_strategy.iterate.IterateGen.sample', 'cross_block._desugar_factors_with_weights']
    ctx.bounds = {'designs': f'corpus designs with at most {limit} solutions', 'requested': '1, available-1, available, available+3'}
    ctx.outside += ['requested counts other than the four listed (enumerated, not symbolic)', f'designs with more than {limit} solutions']
    ctx.assumptions += ['available is the projected model count of the real formula / the accepted-candidate count; '
                        'their agreement with the documented semantics is C02/C05']
    ctx.rule = 'one case per descriptor; non-trivial = at least 2 solutions'
    ctx.explanation = ('Counts and distinctness of what the real without-replacement strategies return for four requested '
                       'sizes per design; availability comes from SAT enumeration of the real formula and from the '
                       'exhaustive candidate enumeration. The symbolic part (blocking clause == negated cube for every '
                       'solution) is C27.')
    res = pmap(ctx, one, [(d, limit) for d in designs(ctx.tier, ctx.seed)])
    ctx.extra['design_outcomes'] = {str(k): res.count(k) for k in set(res)}
