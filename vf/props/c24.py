"""C24 Documented block-combinator equivalences hold.

For each design and each documented law both sides are built by the real constructors (fresh objects each) and the two
projection inclusions  F_lhs(x,a) & D_rhs(x,a') & not Rest_rhs  /  vice versa  are decided (closure form), trial
variables matched by (trial, factor name, level position) through the two real variable tables.  No reference
semantics is involved.  Laws: MultiCrossBlock = Merge of CrossBlocks; Repeat(b,cs) = Merge([b],cs,REPEAT,EQUAL_PREAMBLE);
Repeat(b,[]) = Merge([b]) = b; CrossBlock = MultiCrossBlock([c]) in WEIGHT mode.
"""
import copy
import itertools
import random

from ..common import HarnessError, pmap, stable_hash, quiet
from ..corpus import (fixed_corpus, D, A2, A3, B2, B3, C2, C3, AW, CW, CONG, TRA, TRB, cross, multi, repeat, merge,
                      window, random_design)
from ..designs import describe
from ..enginea import compile_design, inclusion, Rejected, lib_sat_with_units

LEVEL = 'translation_validation'


def law_pairs(desc):
    """Yields (law name, lhs descriptor, rhs descriptor)."""
    b = desc['block']
    F = desc['factors']
    k = b['kind']
    if k == 'multi':
        rhs = merge([cross(b['design'], c, [], b.get('rcc', True)) for c in b['crossings']], b.get('constraints', []),
                    b.get('mode', 'equal'), b.get('alignment', 'equal preamble'))
        yield 'multi=merge-of-cross', desc, D(F, rhs)
    if k == 'repeat':
        rhs = merge([b['block']], b.get('constraints', []), 'repeat', 'equal preamble')
        yield 'repeat=merge', desc, D(F, rhs)
    if k == 'multi' and b.get('alignment') == 'post preamble':
        crossed = {f for c in b['crossings'] for f in c}
        if any('window' in f and f['name'] in b['design'] and f['name'] not in crossed for f in F):
            # POST_PREAMBLE lets an uncrossed window factor delay all crossings; Repeat/Merge([b]) are documented to use
            # EQUAL_PREAMBLE, so "Repeat(b, []) = b" and that rule contradict each other here: outside
            return
    if k in ('cross', 'multi'):
        yield 'repeat-nothing=block', D(F, repeat(b, [])), desc
        yield 'merge-one=block', D(F, merge([b])), desc
    if k == 'cross':
        rhs = multi(b['design'], [b['crossing']], b.get('constraints', []), mode='weight', rcc=b.get('rcc', True))
        yield 'cross=multi-one', desc, D(F, rhs)


def extra_designs(tier, seed):
    out = []
    for mode, al in itertools.product(['equal', 'repeat', 'weight'], ['equal preamble', 'parallel start', 'post preamble']):
        out.append(D([A2, B2, C3], multi('ABC', ['A', 'C'], mode=mode, alignment=al)))
        out.append(D([A2, B2, C2], multi('ABC', ['AB', 'BC'], mode=mode, alignment=al)))
        out.append(D([A2, B2, C3, TRA], multi('ABCR', ['AR', 'C'], mode=mode, alignment=al)))
        out.append(D([A2, B2, C3, TRA], multi('ABCR', ['AR', 'BC'], [['AtMostKInARow', 1, 'B', 'b0']], mode=mode, alignment=al)))
        out.append(D([A2, B2, C2, TRA, TRB], multi('ABCRS', ['AR', 'BS'], mode=mode, alignment=al)))
    out.append(D([A2, B2], repeat(cross('AB', 'AB', [['MinimumTrials', 6]]), [['MinimumTrials', 8]])))
    out.append(D([A2, B2], cross('AB', 'AB', [['MinimumTrials', 6]])))
    out.append(D([A2, B2, C3], multi('ABC', ['A', 'C'], [['MinimumTrials', 8]], mode='weight')))
    out.append(D([A2, B2, TRA], repeat(cross('ABR', 'AR', [['MinimumTrials', 7]]), [['MinimumTrials', 11]])))
    rnd = random.Random(seed * 31 + 5)
    for _ in range(300 if tier == 'thorough' else 30):
        out.append(random_design(rnd, 12 if tier == 'thorough' else 8))
    return out


def check_pair(sub, item):
    law, lhs, rhs = item
    key = f'{law}:{stable_hash([lhs, rhs])}'
    label = f'{law}: {describe(lhs)}  vs  {describe(rhs)}'
    comps = []
    for d in (lhs, rhs):
        try:
            comps.append(compile_design(d, need_ref=False))
        except Rejected as e:
            comps.append(e)
        except (IndexError, KeyError, AssertionError, ZeroDivisionError, TypeError, AttributeError) as e:
            sub.extra.setdefault('internal_error_C08', []).append(f'{key}: {type(e).__name__}')
            sub.case(key, nontrivial=False)
            return
    rej = [isinstance(c, Exception) for c in comps]
    if all(rej):
        sub.case(key, nontrivial=False)
        return
    data = {'law': law, 'lhs': lhs, 'rhs': rhs}
    if any(rej):
        sub.case(key, nontrivial=True)
        which = 'left' if rej[0] else 'right'
        other = comps[1] if rej[0] else comps[0]
        from ..sat import solve
        if other.errors or not solve(other.clauses)[0]:
            return   # the accepted side has no sequences either: nothing observable differs
        if law == 'repeat-nothing=block' and rej[0] and 'EQUAL_PREAMBLE not allowed' in str(comps[0]):
            # documented refusal: "all crossings must have the same preamble length due to the use of EQUAL_PREAMBLE"
            sub.extra['documented_repeat_refusals'] = sub.extra.get('documented_repeat_refusals', 0) + 1
            return
        sub.violation(f'refusal:{key}', f'{label}: the {which} side is refused ({comps[0 if rej[0] else 1]}) while the '
                      f'other side constructs and has sequences', dict(data, query='refusal'))
        return
    c1, c2 = comps
    sub.programs += 1
    sub.case(key, nontrivial=True)
    sub.sample({'law': law, 'lhs': describe(lhs), 'rhs': describe(rhs)}, limit=5)
    if c1.T_lib != c2.T_lib:
        sub.violation(f'trials:{key}', f'{label}: trials_per_sample {c1.T_lib} vs {c2.T_lib}', dict(data, query='trials'))
        return
    if c1.errors != c2.errors:
        sub.violation(f'errors:{key}', f'{label}: one side reports a synthesis error, the other does not',
                      dict(data, query='errors'))
        return
    if c1.errors:
        return
    for a, b, direction in ((c1, c2, 'lhs-not-in-rhs'), (c2, c1, 'rhs-not-in-lhs')):
        r = inclusion(a, b, sub)
        if r is None:
            continue
        if r == 'incomparable':
            sub.note_inconclusive(f'{key}: variable tables differ (different non-implied factors)')
            return
        if r == 'inconclusive':
            sub.note_inconclusive(f'{key}: {direction} inconclusive')
            continue
        sub.violation(f'{direction}:{key}', f'{label}: {r["sequence"]} is a sequence of one side only ({direction})',
                      dict(data, query=direction, x=r['x1']))


def replay(data):
    from ..enginea import table_by_names
    q = data['query']
    sides = []
    for d in (data['lhs'], data['rhs']):
        try:
            sides.append(compile_design(d, need_ref=False))
        except Rejected as e:
            sides.append(e)
    if q == 'refusal':
        return isinstance(sides[0], Exception) != isinstance(sides[1], Exception)
    if q == 'trials':
        return sides[0].T_lib != sides[1].T_lib
    if q == 'errors':
        return sides[0].errors != sides[1].errors
    a, b = (sides[0], sides[1]) if q == 'lhs-not-in-rhs' else (sides[1], sides[0])
    ta, tb = table_by_names(a), table_by_names(b)
    xs = set(data['x'])
    xa = {v: v in xs for v in range(1, a.support + 1)}
    xb = {tb[k]: xa[ta[k]] for k in ta}
    return lib_sat_with_units(a, xa) and not lib_sat_with_units(b, xb)


def run(ctx):
    ctx.functions += ['cross_block.MultiCrossBlock', 'cross_block.CrossBlock', 'cross_block.Merge', 'cross_block.Repeat',
                      'cross_block._create', 'server.build_cnf']
    ctx.bounds = {'designs': 'fixed corpus + mode x alignment grid + 30 (thorough 300) seeded random descriptors'}
    ctx.outside += ['pairs whose variable tables differ (reported inconclusive)', 'designs outside the generator space',
                    'Repeat(b,[]) / Merge([b]) = b for POST_PREAMBLE blocks with an uncrossed window factor (the documentation '
                    'of Repeat fixes EQUAL_PREAMBLE, which contradicts the identity there)']
    ctx.assumptions += ['z3/CryptoMiniSat sound', 'closure procedure of vf/sat.py']
    ctx.rule = 'one case per (law, design); non-trivial = at least one side constructs'
    items = []
    for d in fixed_corpus() + extra_designs(ctx.tier, ctx.seed):
        items += list(law_pairs(d))
    # vacuity: an inclusion that must fail (AtMostKInARow side is strictly smaller)
    class _S:
        solver_s = 0
        def q(self, *a, **k): pass
    big = compile_design(D([A2, B2], cross('AB', 'AB')), need_ref=False)
    small = compile_design(D([A2, B2], cross('AB', 'AB', [['AtMostKInARow', 1, 'A', 'a0']])), need_ref=False)
    if inclusion(big, small, _S()) is None or inclusion(small, big, _S()) is not None:
        raise HarnessError('vacuity: inclusion query does not separate a constrained block from an unconstrained one')
    pmap(ctx, check_pair, items)
