"""C20 Output conversions preserve trials and hide internal factors.

Engine B: (1) experiments_to_tuples / experiments_to_dicts on experiments whose VALUES are unconstrained symbolic
integers and whose shape (1-2 experiments, 1-3 trials, extra keys present or not) is symbolic: row t of experiment e must
hold experiments[e][f][t] for each user-declared factor f of the block in design order -- for blocks without and with
weight-desugared (hidden) factors and with a continuous factor.  (2) save_experiments_csv through an in-memory `open`
(the file system is stubbed), values chosen symbolically from an alphabet with commas, quotes, the empty string and
non-string falsy names; the text is read back with the csv module.  (3) corpus: the key set returned by the real
synthesize_trials equals the user-declared factor names for every design (weighted ones expose no internal factor).
"""
from ..common import HarnessError, pmap, stable_hash, quiet
from ..corpus import designs
from . import c25
from ..designs import describe, build
from ..xhair import Case, run_cases, replay_harness

LEVEL = 'other'

HEADER = '''
import io, csv
import sweetpea as sp
import sweetpea._internal.main as _main

def _conc(v, lo, hi):
    for c in range(lo, hi + 1):
        if v == c:
            return c
    raise AssertionError('outside the precondition')

_BLOCK_CACHE = {}
def _blocks(kind):
    if kind in _BLOCK_CACHE:
        return _BLOCK_CACHE[kind]
    _BLOCK_CACHE[kind] = _blocks_build(kind)
    return _BLOCK_CACHE[kind]

def _blocks_build(kind):
    A = sp.Factor('A', ['a0', 'a1']); B = sp.Factor('B', ['b0', 'b1'])
    if kind == 'plain':
        return sp.CrossBlock([A, B], [A, B], []), ['A', 'B']
    if kind == 'weighted':
        W = sp.Factor('W', [sp.Level('w0', 2), 'w1'])
        return sp.CrossBlock([A, W, B], [A, B], [sp.AtMostKInARow(2, (W, 'w0'))]), ['A', 'W', 'B']
    if kind == 'continuous':
        T = sp.ContinuousFactor('T', distribution=sp.UniformDistribution(0, 1))
        return sp.CrossBlock([A, T, B], [A, B], []), ['A', 'T', 'B']
    raise ValueError(kind)

for _k in ('plain', 'weighted', 'continuous'):
    _blocks(_k)

def _mk_experiments(names, cols, n_exp, n_trials, extra):
    exps = []
    k = 0
    for e in range(n_exp):
        d = {}
        if extra:
            d['zz_not_a_factor'] = list(range(n_trials))
        for n in reversed(names):          # insertion order differs from design order on purpose
            d[n] = cols[k][:n_trials]
            k += 1
        exps.append(d)
    return exps

ALPHABET = ['plain', 'with,comma', 'with "quote"', '', 0, 'two words', 'line']

class _Files:
    store = {}
class _FakeFile(io.StringIO):
    def __init__(self, name):
        super().__init__(newline='')
        self._name = name
    def close(self):
        _Files.store[self._name] = self.getvalue()
        super().close()
    def __exit__(self, *a):
        self.close()
        return False
def _fake_open(name, mode='r', *a, **k):
    if 'w' not in mode:
        raise IOError('read not stubbed')
    return _FakeFile(name)
'''


def I(s):
    return '\n'.join('    ' + l for l in s.strip('\n').splitlines())


def cases(tier):
    out = []
    for kind in ('plain', 'weighted', 'continuous'):
        ncols = 6
        sig = ', '.join([f'c{i}: List[int]' for i in range(ncols)] + ['n_exp: int', 'n_trials: int', 'extra: bool'])
        pre = 'return 1 <= n_exp <= 2 and 1 <= n_trials <= 3 and ' + ' and '.join(f'len(c{i}) >= n_trials' for i in range(ncols))
        for conv in ('tuples', 'dicts'):
            impl = (f"block, names = _blocks({kind!r})\nn_exp = _conc(n_exp, 1, 2)\nn_trials = _conc(n_trials, 1, 3)\n"
                    f"exps = _mk_experiments(names, [c0, c1, c2, c3, c4, c5], n_exp, n_trials, extra)\n"
                    f"return (sp.experiments_to_{conv}(block, exps), exps, names)")
            if conv == 'tuples':
                post = ("got, exps, names = _ret\n"
                        "return got == [[tuple(e[n][t] for n in names) for t in range(len(e[names[0]]))] for e in exps]")
            else:
                post = ("got, exps, names = _ret\n"
                        "return got == [[{n: e[n][t] for n in names} for t in range(len(e[names[0]]))] for e in exps] and "
                        "all(list(row.keys()) == names for ex in got for row in ex)")
            out.append(Case(f'{conv}_{kind}', sig, I(impl), I(pre), I(post), info={'converter': conv, 'block': kind}))
        # CSV
        names_n = 3 if kind != 'plain' else 2
        T = 2 if kind == 'plain' else 1
        cells = [f'v{f}_{t}' for f in range(names_n) for t in range(T)]
        sig = ', '.join(f'{c}: int' for c in cells)
        pre = 'return ' + ' and '.join(f'0 <= {c} <= 6' for c in cells)
        impl = (f"block, names = _blocks({kind!r})\n"
                f"vals = [[ALPHABET[_conc(v, 0, 6)] for v in col] for col in [{', '.join('[' + ', '.join(f'v{f}_{t}' for t in range(T)) + ']' for f in range(names_n))}]]\n"
                f"exp = dict(zip(names, vals))\n_Files.store = {{}}\n_main.open = _fake_open\n"
                f"try:\n    sp.save_experiments_csv(block, [exp], 'out')\nfinally:\n    del _main.open\n"
                f"return (dict(_Files.store), exp, names)")
        post = ("files, exp, names = _ret\n"
                "if list(files) != ['out_0.csv']:\n    return False\n"
                "rows = list(csv.reader(io.StringIO(files['out_0.csv'], newline='')))\n"
                "want = [names] + [[str(exp[n][t]) for n in names] for t in range(len(exp[names[0]]))]\n"
                "return rows == want")
        out.append(Case(f'csv_{kind}', sig, I(impl), I(pre), I(post), info={'converter': 'csv', 'block': kind},
                        timeout=None))
    return out


def hidden_keys(sub, desc):
    import sweetpea as sp
    key = stable_hash(desc)
    try:
        with quiet():
            built = build(desc)
    except Exception:
        return 'rejected'
    weighted = any(isinstance(l, (list, tuple)) for f in desc['factors'] if 'window' not in f for l in f['levels'])
    from ..sat import solve
    from ..designs import compiled_clauses
    try:
        with quiet():
            if built.block.show_errors() or not solve(compiled_clauses(built.block))[0]:
                return 'no-sequences'
            out = sp.synthesize_trials(built.block, 2, sp.IterateSATGen)
    except Exception:
        return 'internal-error'
    sub.case(key, nontrivial=weighted)
    problem = _keys_and_tuples(sub, desc, built.block, desc['block'], out, key, 'top')
    if problem:
        return 'ok'
    # operand blocks stay usable on their own after they were combined (Repeat/Merge/Nest must not edit them)
    specs = _postorder(desc['block'])
    if len(specs) > 1 and len(specs) == len(built.blocks):
        for i, (blk, bs) in enumerate(zip(built.blocks[:-1], specs[:-1])):
            try:
                with quiet():
                    if blk.show_errors() or not solve(compiled_clauses(blk))[0]:
                        continue
                    o = sp.synthesize_trials(blk, 1, sp.IterateSATGen)
            except Exception as e:
                sub.violation(f'operand:{key}:{i}', f'{describe(desc)}: operand block {i} ({bs["kind"]}) can no longer be '
                              f'synthesized after it was combined: {type(e).__name__}: {e}',
                              {'desc': desc, 'query': 'operand', 'index': i})
                break
            if _keys_and_tuples(sub, desc, blk, bs, o, key, f'operand{i}'):
                break
    return 'ok'


def _keys_and_tuples(sub, desc, block, bs, out, key, tag):
    import sweetpea as sp
    want = [n for n in _block_names(bs)]
    for seq in out:
        if sorted(map(str, seq.keys())) != sorted(want) or any(not isinstance(k, str) for k in seq.keys()):
            sub.violation(f'keys:{key}' if tag == 'top' else f'keys:{key}:{tag}',
                          f'{describe(desc)} [{tag}]: synthesize_trials returns columns {list(seq.keys())}, the '
                          f'user-declared factors are {want}', {'desc': desc, 'query': 'keys', 'want': want, 'tag': tag})
            return True
        try:
            tup = sp.experiments_to_tuples(block, [seq])
            dic = sp.experiments_to_dicts(block, [seq])
        except Exception as e:
            sub.violation(f'tuples:{key}' if tag == 'top' else f'tuples:{key}:{tag}',
                          f'{describe(desc)} [{tag}]: conversion raises {type(e).__name__}: {e}',
                          {'desc': desc, 'query': 'tuples', 'want': want, 'tag': tag})
            return True
        T = len(seq[want[0]])
        if tup != [[tuple(seq[n][t] for n in want) for t in range(T)]] or \
                dic != [[{n: seq[n][t] for n in want} for t in range(T)]]:
            sub.violation(f'tuples:{key}' if tag == 'top' else f'tuples:{key}:{tag}',
                          f'{describe(desc)} [{tag}]: experiments_to_tuples/dicts differ from the returned sequence',
                          {'desc': desc, 'query': 'tuples', 'want': want, 'tag': tag})
            return True
    return False


def _postorder(bs):
    """Block specs in the order designs.build_block appends the built blocks."""
    k = bs['kind']
    out = []
    if k == 'repeat':
        out += _postorder(bs['block'])
    elif k == 'merge':
        for b in bs['blocks']:
            out += _postorder(b)
    elif k == 'nest':
        out += _postorder(bs['outer']) + _postorder(bs['inner'])
    return out + [bs]


def _block_names(bs):
    k = bs['kind']
    if k in ('cross', 'multi'):
        return list(bs['design'])
    if k == 'repeat':
        return _block_names(bs['block'])
    if k == 'merge':
        out = []
        for b in bs['blocks']:
            for n in _block_names(b):
                if n not in out:
                    out.append(n)
        return out
    out = _block_names(bs['outer'])
    return out + [n for n in _block_names(bs['inner']) if n not in out]


def _design_order(desc):
    return _block_names(desc['block'])


def replay(data):
    if data.get('query') == 'crosshair':
        return replay_harness(data)
    if data.get('query') == 'continuous-weighted':
        return _continuous_weighted_problem() is not None
    from ..common import Sub
    sub = Sub('C20', 'quick', 0)
    hidden_keys(sub, data['desc'])
    return bool(sub.violations)


def _continuous_weighted_problem():
    """A weighted uncrossed factor (internal hidden factor) together with a continuous factor, through the real
    synthesize_trials with each strategy: only the declared columns come back and the conversions reproduce them."""
    import sweetpea as sp
    for strategy in (sp.IterateSATGen, sp.RandomGen, sp.CMSGen):
        A = sp.Factor('A', ['a0', 'a1']); B = sp.Factor('B', ['b0', 'b1'])
        W = sp.Factor('W', [sp.Level('w0', 2), 'w1'])
        T = sp.ContinuousFactor('T', distribution=sp.UniformDistribution(0, 1))
        block = sp.CrossBlock([A, W, B, T], [A, B], [])
        with quiet():
            out = sp.synthesize_trials(block, 2, strategy)
        if not out:
            return f'{strategy.__name__}: no sequences'
        for seq in out:
            if list(seq.keys()) != ['A', 'W', 'B', 'T'] and sorted(map(str, seq.keys())) != ['A', 'B', 'T', 'W']:
                return f'{strategy.__name__}: columns {list(seq.keys())}'
            n = len(seq['A'])
            if any(len(v) != n for v in seq.values()):
                return f'{strategy.__name__}: ragged columns'
            if sp.experiments_to_tuples(block, [seq]) != [[tuple(seq[k][t] for k in ('A', 'W', 'B', 'T')) for t in range(n)]]:
                return f'{strategy.__name__}: experiments_to_tuples differs from the returned sequence'
    return None


def run(ctx):
    ctx.functions += ['main.experiments_to_tuples', 'main.experiments_to_dicts', 'main.save_experiments_csv',
                      'main._experiments_to_csv', 'main.__filter_hidden', 'main.__filter_hidden_keys',
                      'main.synthesize_trials (returned key set)']
    ctx.bounds = {'symbolic': '1-2 experiments, 1-3 trials, unconstrained integer values, extra key or not; CSV: 2 trials, '
                              '7-value alphabet per cell', 'blocks': 'plain, with a weighted uncrossed factor (hidden '
                              'internal factor), with a continuous factor', 'corpus': 'key set and tuple/dict conversion of real sequences per design, also for every operand block of a Repeat/Merge/Nest after it was combined; one design with a weighted uncrossed factor and a continuous factor through IterateSATGen, RandomGen, CMSGen'}
    ctx.outside += ['more experiments/trials', 'values that are not int/str']
    ctx.stubs += ['open() inside sweetpea._internal.main replaced by an in-memory file for the CSV cases',
                  'Factor/Level __hash__ = id>>4']
    ctx.assumptions += ['CrossHair/z3 sound; csv module trusted as reader']
    ctx.rule = 'one case per (converter, block kind); corpus: one case per descriptor, non-trivial = has weighted levels'
    ctx.explanation = ('Converters are executed symbolically on experiments with unconstrained values (one path covers all '
                       'values) and symbolic shape; CSV text is read back; hidden factors are checked on real sequences.')
    res = pmap(ctx, hidden_keys, designs(ctx.tier, ctx.seed) + c25.nest_designs(ctx.tier, ctx.seed))
    ctx.case('continuous+weighted')
    try:
        problem = _continuous_weighted_problem()
    except Exception as e:
        problem = f'{type(e).__name__}: {e}'
    if problem:
        ctx.violation('continuous-weighted', f'CrossBlock([A, W(w0 x2), B, T continuous], [A, B]): {problem}',
                      {'query': 'continuous-weighted'})
    ctx.extra['design_outcomes'] = {str(k): res.count(k) for k in set(res)}
    run_cases(ctx, HEADER, cases(ctx.tier), timeout=600 if ctx.tier == 'thorough' else 150, path_timeout=30,
              module_tag='c20', keyfn=lambda c, kw: f"convert:{c.info['converter']}:{c.info['block']}")
