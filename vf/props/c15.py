"""C15 Derived factors must be total, unambiguous functions of their window.

Engine B: the predicates of a two-level derived factor are SYMBOLIC truth tables over the window inputs (WithinTrial
over two 2-level factors; Transition over one 2-level factor; Window(width 2, start 0 or 1) with None inputs, second
level ElseLevel); CrossHair executes the real Factor/CrossBlock constructors and DerivationProcessor with the factor
crossed, constrained, or implied (neither).  Postcondition: two levels accepting the same input  <=>  ValueError at
construction; otherwise some input accepted by no level  <=>  a non-warning entry in block.errors (synthesis reports an
error and returns []); otherwise construction succeeds, and without unreachable levels there is no error.
Concretely, for every WithinTrial table pair the real synthesize_trials is run: [] exactly when uncovered, and every
returned trial carries the level whose predicate accepts it.  That every model of the compiled formula has exactly the
accepting level at applicable trials and none elsewhere is R rule 3, decided by C01/C02.
"""
import itertools

from ..common import HarnessError, pmap, quiet
from ..xhair import Case, run_cases, replay_harness

LEVEL = 'other'

HEADER = '''
import sweetpea as sp

def _build(kind, role, t0, t1):
    """kind: within/transition/window0/window1;  role: crossed/constrained/implied;  t0,t1: truth tables (lists)."""
    A = sp.Factor('A', ['a0', 'a1']); B = sp.Factor('B', ['b0', 'b1'])
    if kind == 'within':
        def idx(a, b):
            return (0 if a == 'a0' else 2) + (0 if b == 'b0' else 1)
        l0 = sp.DerivedLevel('d0', sp.WithinTrial(lambda a, b: t0[idx(a, b)], [A, B]))
        l1 = sp.DerivedLevel('d1', sp.WithinTrial(lambda a, b: t1[idx(a, b)], [A, B]))
    elif kind == 'transition':
        def idx(d):
            return (0 if d[-1] == 'a0' else 2) + (0 if d[0] == 'a0' else 1)
        l0 = sp.DerivedLevel('d0', sp.Transition(lambda d: t0[idx(d)], [A]))
        l1 = sp.DerivedLevel('d1', sp.Transition(lambda d: t1[idx(d)], [A]))
    else:
        start = 0 if kind == 'window0' else 1
        def idx(d):
            p = 0 if d[-1] is None else (1 if d[-1] == 'a0' else 2)
            return p * 2 + (0 if d[0] == 'a0' else 1)
        l0 = sp.DerivedLevel('d0', sp.Window(lambda d: t0[idx(d)], [A], 2, 1, start))
        l1 = sp.ElseLevel('d1')
    try:
        Dv = sp.Factor('D', [l0, l1])
        if role == 'crossed':
            block = sp.CrossBlock([A, B, Dv], [A, Dv] if kind == 'within' else [B, Dv], [], False)
        elif role == 'constrained':
            block = sp.CrossBlock([A, B, Dv], [A, B], [sp.AtMostKInARow(3, (Dv, 'd0'))])
        else:
            block = sp.CrossBlock([A, B, Dv], [A, B], [])
    except ValueError:
        return 'ValueError'
    fatal = [e for e in block.errors if 'WARNING' not in e]
    return 'errors' if fatal else 'ok'

def _expect(kind, t0, t1, ret):
    n = len(t0)
    if kind.startswith('window'):
        # second level is ElseLevel: total and unambiguous by construction
        inputs = range(n) if kind == 'window0' else range(2, n)
        return ret in ('ok', 'errors') and (ret == 'ok' or not any(t0[i] for i in inputs) or all(t0[i] for i in inputs))
    overlap = any(t0[i] and t1[i] for i in range(n))
    uncovered = any((not t0[i]) and (not t1[i]) for i in range(n))
    if overlap:
        return ret == 'ValueError'
    if uncovered:
        return ret == 'errors'
    if any(t0) and any(t1):
        return ret == 'ok'
    return ret in ('ok', 'errors')     # a level that can never occur: warning or error, both acceptable
'''


def I(s):
    return '\n'.join('    ' + l for l in s.strip('\n').splitlines())


def cases(tier):
    out = []
    for kind, n in (('within', 4), ('transition', 4), ('window0', 6), ('window1', 6)):
        for role in ('crossed', 'constrained', 'implied'):
            two = not kind.startswith('window')
            args = [f'x{i}' for i in range(n)] + ([f'y{i}' for i in range(n)] if two else [])
            sig = ', '.join(f'{a}: bool' for a in args)
            t0 = '[' + ', '.join(f'bool(x{i})' for i in range(n)) + ']'
            t1 = ('[' + ', '.join(f'bool(y{i})' for i in range(n)) + ']') if two else '[False] * %d' % n
            impl = f'return _build({kind!r}, {role!r}, {t0}, {t1})'
            post = f'return _expect({kind!r}, {t0}, {t1}, _ret)'
            # (the crossed factor none of whose levels can ever occur is checked separately: key crossed-no-level)
            pre = 'return True' if not (two and role == 'crossed') else \
                'return ' + ' or '.join(f'x{i}' for i in range(n)) + ' or ' + ' or '.join(f'y{i}' for i in range(n))
            out.append(Case(f'{kind}_{role}', sig, I(impl), I(pre), I(post),
                            info={'window': kind, 'role': role, 'inputs': n}))
    return out


def concrete(sub, item):
    """Every WithinTrial table pair through the real synthesis."""
    import sweetpea as sp
    t0, t1, role = item
    sub.case(f'concrete:{t0}:{t1}:{role}')
    A = sp.Factor('A', ['a0', 'a1'])
    B = sp.Factor('B', ['b0', 'b1'])
    idx = lambda a, b: (0 if a == 'a0' else 2) + (0 if b == 'b0' else 1)
    overlap = any(x and y for x, y in zip(t0, t1))
    uncovered = any((not x) and (not y) for x, y in zip(t0, t1))
    data = {'query': 'concrete', 't0': list(t0), 't1': list(t1), 'role': role}
    try:
        with quiet():
            Dv = sp.Factor('D', [sp.DerivedLevel('d0', sp.WithinTrial(lambda a, b: bool(t0[idx(a, b)]), [A, B])),
                                 sp.DerivedLevel('d1', sp.WithinTrial(lambda a, b: bool(t1[idx(a, b)]), [A, B]))])
            cons = [sp.AtMostKInARow(3, (Dv, 'd0'))] if role == 'constrained' else []
            block = sp.CrossBlock([A, B, Dv], [A, B], cons)
    except ValueError:
        if not overlap:
            sub.violation(f'refused:{t0}:{t1}:{role}', f'tables {t0}/{t1} ({role}): constructor refuses a well-formed factor', data)
        return
    if overlap:
        sub.violation(f'accepted-ambiguous:{t0}:{t1}:{role}', f'tables {t0}/{t1} ({role}): two levels accept the same input '
                      f'but the block is built', data)
        return
    with quiet():
        out = sp.synthesize_trials(block, 3, sp.IterateSATGen)
    if uncovered:
        if out != []:
            sub.violation(f'uncovered-returned:{t0}:{t1}:{role}', f'tables {t0}/{t1} ({role}): some input matches no level but '
                          f'{len(out)} sequences are returned, e.g. {out[0]}', data)
        return
    if not out and role == 'constrained' and all(t0):
        return   # every trial is d0, so AtMostKInARow(3, d0) over 4 trials legitimately leaves no sequence
    if not out:
        sub.violation(f'empty:{t0}:{t1}:{role}', f'tables {t0}/{t1} ({role}): total unambiguous factor but no sequence', data)
        return
    for seq in out:
        for t in range(len(seq['A'])):
            i = idx(seq['A'][t], seq['B'][t])
            want = 'd0' if t0[i] else 'd1'
            if seq['D'][t] != want:
                sub.violation(f'wrong-level:{t0}:{t1}:{role}', f'tables {t0}/{t1} ({role}): trial {t} of {seq} should be {want}', data)
                return


def derived_columns(sub, desc):
    """Real synthesize_trials (IterateSATGen, RandomGen) on a corpus design with derived factors: in every returned
    sequence each derived column holds, at every applicable trial, the level whose predicate accepts that trial's window
    (None before the sequence starts) and nothing at the other trials -- also for factors that have no variables and are
    filled in afterwards (block.add_implied_levels)."""
    import sweetpea as sp
    from ..designs import build, describe, compiled_clauses
    from ..ref import validate, Outside, Refused
    from ..sat import solve
    from ..common import stable_hash
    key = stable_hash(desc)
    derived = [f['name'] for f in desc['factors'] if 'window' in f]
    try:
        with quiet():
            built = build(desc)
            if built.block.show_errors() or not solve(compiled_clauses(built.block))[0]:
                return 'no-sequences'
    except Exception:
        return 'rejected'
    for strat in ('IterateSATGen', 'RandomGen'):
        try:
            with quiet():
                out = sp.synthesize_trials(built.block, 3, getattr(sp, strat))
        except Exception:
            return 'internal-error'      # C08's subject
        for seq in out:
            try:
                ok, bad = validate(desc, seq)
            except (Outside, Refused):
                return 'outside'
            mine = [b for b in bad if b.split(':')[0] in ('derive', 'level', 'inapplicable', 'length')
                    and any(b.split(':')[1].split('@')[0] == d for d in derived)]
            if mine:
                sub.case(key)
                sub.violation(f'column:{key}', f'{describe(desc)}: {strat} returns {seq}; derived column(s) wrong at {mine[:4]}',
                              {'desc': desc, 'query': 'column', 'strategy': strat})
                return 'violation'
    sub.case(key)
    return 'ok'


def replay(data):
    if data.get('query') == 'crosshair':
        return replay_harness(data)
    if data.get('query') == 'column':
        from ..common import Sub
        sub = Sub('C15', 'quick', 0)
        return derived_columns(sub, data['desc']) == 'violation'
    if data.get('query') == 'crossed-no-level':
        import sweetpea as sp
        try:
            with quiet():
                A = sp.Factor('A', ['a0', 'a1']); B = sp.Factor('B', ['b0', 'b1'])
                Dv = sp.Factor('D', [sp.DerivedLevel('d0', sp.WithinTrial(lambda a, b: False, [A, B])),
                                     sp.DerivedLevel('d1', sp.WithinTrial(lambda a, b: False, [A, B]))])
                return sp.synthesize_trials(sp.CrossBlock([A, B, Dv], [A, Dv], [], False), 2, sp.IterateSATGen) != []
        except (ValueError, RuntimeError):
            return False
        except Exception:
            return True
    class S:
        def __init__(self): self.v = []
        def case(self, *a, **k): pass
        def violation(self, key, what, d): self.v.append(key)
    s = S()
    concrete(s, (tuple(data['t0']), tuple(data['t1']), data['role']))
    return bool(s.v)


def run(ctx):
    ctx.functions += ['derivation_processor.DerivationProcessor.generate_derivations', 'primitive.DerivedLevel.'
                      'get_dependent_cross_product', 'primitive.DerivedFactor._process_initial_levels / ElseLevel',
                      'cross_block._create', 'block.show_errors', 'main.synthesize_trials (concrete part)']
    ctx.bounds = {'symbolic tables': 'WithinTrial(A,B) 2x4 entries; Transition(A) 2x4; Window(A, width 2, start 0) 6 entries '
                                     '+ ElseLevel; Window(start 1) 6 entries', 'roles': 'crossed, constrained, implied', 'corpus': 'every corpus design with a derived factor: 3 sequences from IterateSATGen and RandomGen, derived columns (also implied ones, windows with early start, stride, weighted sources) against R rule 3'}
    ctx.outside += ['derived factors with more than two levels or wider windows', 'stride > 1 (applicability is R rule 3)']
    ctx.stubs += ['Factor/Level __hash__ = id>>4']
    ctx.assumptions += ['CrossHair/z3 sound']
    ctx.rule = 'one case per (window kind, role); all truth tables symbolic; plus every WithinTrial table pair concretely; plus one case per corpus design with derived factors (real output columns)'
    ctx.explanation = ('Symbolic predicate truth tables through the real constructors: ambiguity <=> ValueError, '
                       'non-coverage <=> fatal error; concrete synthesis for all 256 WithinTrial table pairs x 2 roles.')
    # a crossed derived factor none of whose levels accepts anything (require_complete_crossing=False)
    import sweetpea as sp
    ctx.case('crossed-no-level')
    try:
        with quiet():
            A = sp.Factor('A', ['a0', 'a1']); B = sp.Factor('B', ['b0', 'b1'])
            Dv = sp.Factor('D', [sp.DerivedLevel('d0', sp.WithinTrial(lambda a, b: False, [A, B])),
                                 sp.DerivedLevel('d1', sp.WithinTrial(lambda a, b: False, [A, B]))])
            blk = sp.CrossBlock([A, B, Dv], [A, Dv], [], False)
            res = sp.synthesize_trials(blk, 2, sp.IterateSATGen)
        if res != []:
            ctx.violation('crossed-no-level:returned', f'sequences returned for a derived factor no level of which matches: {res}',
                          {'query': 'crossed-no-level'})
    except (ValueError, RuntimeError):
        pass
    except Exception as e:
        ctx.violation(f'crossed-no-level:{type(e).__name__}', 'CrossBlock([A,B,D],[A,D],[],False) with D=WithinTrial levels that '
                      f'accept no input raises {type(e).__name__} instead of reporting an error', {'query': 'crossed-no-level'})
    items = [(t0, t1, role) for t0 in itertools.product([0, 1], repeat=4) for t1 in itertools.product([0, 1], repeat=4)
             for role in (('implied', 'constrained') if ctx.tier == 'thorough' else ('implied',))]
    pmap(ctx, concrete, items)
    from ..corpus import designs
    import os
    os.environ.setdefault('VERIF_ITEM_TIMEOUT', '300' if ctx.tier == 'thorough' else '40')
    ds = [d for d in designs(ctx.tier, ctx.seed) if any('window' in f for f in d['factors'])]
    res = pmap(ctx, derived_columns, ds)
    ctx.extra['corpus_outcomes'] = {str(k): res.count(k) for k in set(res)}
    cs = cases(ctx.tier)
    ctx.sample({'case': cs[0].name, 'info': cs[0].info})
    run_cases(ctx, HEADER, cs, timeout=600 if ctx.tier == 'thorough' else 200, path_timeout=40, module_tag='c15',
              keyfn=lambda c, kw: f'tables:{c.name}')
