"""C22 Continuous factors respect their constraints, inputs and windows.

Engine B: the distributions are stubs that pop SYMBOLIC integers from the harness arguments (integers stand for the
sampled reals; the library does no arithmetic on them outside user functions), the window's start is symbolic, and
CrossHair drives the real block.sample_continuous on a fixed discrete trial sequence.  Postcondition: one value per
trial and factor; the ContinuousConstraint holds at every trial of the result; the result is exactly the accepted
attempt's draws; a derived factor is computed from that trial's discrete level and continuous value; a window factor
sees the current and preceding width-1 outputs of the same sequence with NaN exactly where the window is undefined
(before start, off-stride, before trial 0); a cumulative distribution restarts with every attempt.
Resampling is cut after 2 attempts (stated).  The merge into the returned dictionaries is run concretely.
"""
from ..common import HarnessError, quiet
from ..xhair import Case, run_cases, replay_harness

LEVEL = 'other'

HEADER = '''
import math
import sweetpea as sp
from sweetpea._internal.constraint import ContinuousConstraint as _CC

def _conc(v, lo, hi):
    for c in range(lo, hi + 1):
        if v == c:
            return c
    raise AssertionError('outside the precondition')

def _isnan(v):
    return isinstance(v, float) and v != v

def _setup(draws, width, stride, start, T):
    queue = list(draws)
    levels = ['a%d' % i for i in range(T)]
    A = sp.Factor('A', levels)
    def draw():
        return queue.pop(0)
    X = sp.ContinuousFactor('X', distribution=sp.CustomDistribution(draw))
    Y = sp.ContinuousFactor('Y', distribution=sp.CustomDistribution(lambda a, x: (levels.index(a), x), [A, X]))
    win = sp.ContinuousFactorWindow([X], width, stride, start)
    Z = sp.ContinuousFactor('Z', distribution=sp.CustomDistribution(
        lambda w: tuple(None if _isnan(w[-k]) else w[-k] for k in range(width)), [win]))
    C = sp.ContinuousFactor('C', distribution=sp.CustomDistribution(lambda: 1, cumulative=True))
    # two constraints over the same factor list: both must be enforced
    block = sp.CrossBlock([A, X, Y, Z, C], [A], [_CC([X], lambda x: x >= 0), _CC([X], lambda x: x <= 50)])
    trial = {'A': list(levels)}
    block.trials_per_sample()
    out = block.sample_continuous(0, trial)
    return out, levels, len(queue)

def _expected_window(xs, i, width, stride, start):
    st = (width - 1) if start is None else start
    if i < st or (stride > 1 and (i - st) % stride != 0):
        return tuple(None for _ in range(width))
    return tuple((xs[i - k] if i - k >= 0 else None) for k in range(width))

def _check(ret, draws, width, stride, start, T):
    out, levels, left = ret
    first, second = list(draws[:T]), list(draws[T:2 * T])
    accepted = first if all(0 <= x <= 50 for x in first) else second
    if set(out.keys()) != {'X', 'Y', 'Z', 'C'}:
        return False
    if any(len(out[k]) != T for k in out):
        return False
    if list(out['X']) != accepted or any(x < 0 or x > 50 for x in out['X']):
        return False
    if left != (T if accepted is first else 0):
        return False
    for i in range(T):
        if out['Y'][i] != (i, out['X'][i]):
            return False
        if out['Z'][i] != _expected_window(out['X'], i, width, stride, start):
            return False
        if out['C'][i] != i + 1:
            return False
    return True
'''


def I(s):
    return '\n'.join('    ' + l for l in s.strip('\n').splitlines())


def cases(tier):
    out = []
    shapes = [(2, 1, 3), (3, 1, 3), (2, 2, 3)] + ([(3, 2, 4), (1, 1, 3), (3, 1, 4)] if tier == 'thorough' else [])
    for width, stride, T in shapes:
        sig = 'draws: List[int], start: int'
        pre = (f'return len(draws) == {2 * T} and 0 <= start <= 3 and '
               f'(all(0 <= x <= 50 for x in draws[:{T}]) or all(0 <= x <= 50 for x in draws[{T}:]))')
        impl = f'start = _conc(start, 0, 3)\nreturn _setup(draws, {width}, {stride}, start, {T})'
        post = f'return _check(_ret, draws, {width}, {stride}, start, {T})'
        out.append(Case(f'window_w{width}_s{stride}_T{T}', sig, I(impl), I(pre), I(post),
                        info={'width': width, 'stride': stride, 'trials': T, 'start': 'symbolic 0..3'}))
    # default start (None)
    sig = 'draws: List[int]'
    T = 3
    pre = f'return len(draws) == {2 * T} and (all(0 <= x <= 50 for x in draws[:{T}]) or all(0 <= x <= 50 for x in draws[{T}:]))'
    out.append(Case('window_default_start', sig, I(f'return _setup(draws, 2, 1, None, {T})'), I(pre),
                    I(f'return _check(_ret, draws, 2, 1, None, {T})'), info={'width': 2, 'stride': 1, 'start': None}))
    return out


def replay(data):
    if data.get('query') == 'merge':
        return _merge_problem() is not None
    return replay_harness(data)


def _merge_problem():
    import sweetpea as sp
    from sweetpea._internal.constraint import ContinuousConstraint as _CC
    A = sp.Factor('A', ['a0', 'a1', 'a2'])
    X = sp.ContinuousFactor('X', distribution=sp.UniformDistribution(-1, 1))
    Y = sp.ContinuousFactor('Y', distribution=sp.CustomDistribution(lambda a, x: (a, x), [A, X]))
    block = sp.CrossBlock([A, X, Y], [A], [_CC([X], lambda x: x >= -0.5)])
    with quiet():
        out = sp.synthesize_trials(block, 3, sp.IterateSATGen)
    for seq in out:
        if set(seq.keys()) != {'A', 'X', 'Y'} or any(len(v) != 3 for v in seq.values()):
            return f'columns {list(seq.keys())}'
        if any(x < -0.5 for x in seq['X']):
            return 'constraint violated in returned trials'
        if any(seq['Y'][i] != (seq['A'][i], seq['X'][i]) for i in range(3)):
            return 'derived continuous factor not computed from the same trial'
        if sorted(seq['A']) != ['a0', 'a1', 'a2']:
            return 'discrete part invalid'
    return None


def run(ctx):
    ctx.functions += ['block.sample_continuous', 'block._sample_continuous', 'block._check_constraints',
                      'primitive.ContinuousFactor.generate', 'primitive.ContinuousFactorWindow.get_window_val',
                      'distribution.CustomDistribution.sample / reset', 'main.synthesize_trials (merge of continuous samples)']
    ctx.bounds = {c.name: c.info for c in cases(ctx.tier)}
    ctx.outside += ['more than 2 resampling attempts', 'floating-point values (integers stand for the samples)',
                    'windows over several factors', 'the built-in distributions (they only call random.*)']
    ctx.stubs += ['distribution draw function pops symbolic integers from the harness argument',
                  'Factor/Level __hash__ = id>>4']
    ctx.assumptions += ['CrossHair/z3 sound; expected-window function in the harness header follows docs/_source/api/derivations.rst']
    ctx.rule = 'one case per (width, stride, trials); draws and window start symbolic'
    ctx.explanation = ('Symbolic draws through the real sampling loop: result equals the accepted attempt, constraint holds, '
                       'derived and window inputs are the same trial / preceding outputs, NaN placement, cumulative reset.')
    bad = _merge_problem()
    ctx.case('merge')
    if bad:
        ctx.violation('merge', f'synthesize_trials with continuous factors: {bad}', {'query': 'merge'})
    cs = cases(ctx.tier)
    ctx.sample({'case': cs[0].name, 'info': cs[0].info})
    run_cases(ctx, HEADER, cs, timeout=600 if ctx.tier == 'thorough' else 150, path_timeout=40, module_tag='c22',
              keyfn=lambda c, kw: f'continuous:{c.name}')
