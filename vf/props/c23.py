"""C23 Weighted levels behave as documented.

(1) R-based: weighted designs (weights in the crossing with MinimumTrials / leftover rounds / Repeat, weights on uncrossed
    factors with derived factors and constraints, weights in every crossing of a MultiCrossBlock) are decided sound and
    complete against the reference (rule 7: a crossed weight multiplies the required count and copies are not distinct;
    an uncrossed weight w is w distinct copies printed under the original name).
(2) copy-expanded twin, no reference: each weighted descriptor has a twin where a weight-w level is w separately named
    levels.  Crossed: every twin sequence maps (copy -> name) onto a weighted sequence  [F_twin & link & D_w & not Rest_w
    unsat]  and every weighted sequence (SAT-enumerated, bounded) has a twin model  [incremental SAT under name
    assumptions]; the weighted formula has one model per name sequence (uniqueness miter).  Uncrossed: inclusion both
    ways at copy level through the positional variable tables.  In some but not all crossings: the number of distinct
    solutions must equal the twin's (copies distinct, as the Level documentation says).
"""
import copy

import z3

from ..common import HarnessError, pmap, stable_hash, quiet
from ..corpus import D, A2, A3, B2, B3, C2, C3, AW, CW, TRA, cross, multi, repeat, merge, within
from ..designcheck import check_design, replay_design
from ..designs import describe
from ..enginea import (compile_design, inclusion, Rejected, closure_of, table_by_names, lib_sat_with_units,
                       decode_model, uniqueness)
from ..ref import Outside
from ..sat import Z, z3_check, not_exists_aux_z3, Incremental

LEVEL = 'translation_validation'
AT = {'name': 'A', 'levels': ['a0#1', 'a0#2', 'a1']}     # twin of AW = [['a0', 2], 'a1']
CT = {'name': 'C', 'levels': ['c0#1', 'c0#2', 'c1']}
AW3 = {'name': 'A', 'levels': [['a0', 3], 'a1']}
AT3 = {'name': 'A', 'levels': ['a0#1', 'a0#2', 'a0#3', 'a1']}


def r_designs(tier):
    G = within('G', ['A', 'C'], preds=(('table', [['a0', 'c0'], ['a1', 'c1']]), 'else'))
    out = [
        D([AW, B2], cross('AB', 'AB')), D([AW, B2], cross('AB', 'A')), D([AW, B2], cross('AB', 'AB', [['MinimumTrials', 8]])),
        D([AW, B2], cross('AB', 'A', [['MinimumTrials', 5]])), D([AW, B2], cross('AB', 'A', [['MinimumTrials', 7]])),
        D([AW, B2], repeat(cross('AB', 'A'), [['MinimumTrials', 5]])), D([AW, B2], repeat(cross('AB', 'A'), [['MinimumTrials', 6]])),
        D([AW3, B2], cross('AB', 'A', [['MinimumTrials', 6]])),
        D([AW, B2], cross('AB', 'AB', [['AtMostKInARow', 1, 'A', 'a0']])),
        D([AW, B2], cross('AB', 'AB', [['Exclude', 'B', 'b1']], rcc=False)),
        D([AW, B3], cross('AB', 'AB', [['Exclude', 'B', 'b0']], rcc=False)),
        D([AW, B3], cross('AB', 'AB', [['Exclude', 'A', 'a0']], rcc=False)),
        D([A2, B2, CW], cross('ABC', 'AB')), D([A2, B2, CW], cross('ABC', 'AB', [['AtMostKInARow', 1, 'C', 'c0']])),
        D([A2, B2, CW], cross('ABC', 'AB', [['ExactlyK', 2, 'C', 'c0']])), D([A2, B2, CW], cross('ABC', 'AB', [['Pin', 0, 'C', 'c1']])),
        D([A2, CW, G], cross('ACG', 'A')), D([A2, CW, G], cross('ACG', 'A', [['AtMostKInARow', 1, 'G', 'g0']])),
        D([A2, B2, CW], repeat(cross('ABC', 'AB', [['AtMostKInARow', 1, 'C', 'c0']]), [['MinimumTrials', 8]])),
        D([AW, B2, C2], multi('ABC', ['AB', 'AC'])), D([AW, B2, C2], multi('ABC', ['A', 'AB'], mode='weight')),
        D([AW, B2, TRA], cross('ABR', 'AR')),
    ]
    return out


def twins(tier):
    """(kind, weighted descriptor, twin descriptor, {factor: {twin level name: original name}})"""
    m2 = {'A': {'a0#1': 'a0', 'a0#2': 'a0', 'a1': 'a1'}}
    m3 = {'A': {'a0#1': 'a0', 'a0#2': 'a0', 'a0#3': 'a0', 'a1': 'a1'}}
    mc = {'C': {'c0#1': 'c0', 'c0#2': 'c0', 'c1': 'c1'}}
    out = []
    for name, fw, ft, mp, blocks in (
        ('crossed', [AW, B2], [AT, B2], m2, [cross('AB', 'AB'), cross('AB', 'A'), cross('AB', 'A', [['MinimumTrials', 5]]),
                                             cross('AB', 'AB', [['AtMostKInARow', 1, 'B', 'b0']]),
                                             repeat(cross('AB', 'A'), [['MinimumTrials', 6]])]),
        ('crossed', [AW3, B2], [AT3, B2], m3, [cross('AB', 'A'), cross('AB', 'A', [['MinimumTrials', 6]])]),
        ('uncrossed', [A2, B2, CW], [A2, B2, CT], mc, [cross('ABC', 'AB'), cross('ABC', 'A'),
                                                       repeat(cross('ABC', 'A'), [['MinimumTrials', 4]]),
                                                       cross('ABC', 'AB', [['AtMostKInARow', 1, 'A', 'a0']])]),
        ('some-crossings', [AW, B2, C3], [AT, B2, C3], m2, [multi('ABC', ['A', 'C'], mode='repeat'),
                                                            multi('ABC', ['A', 'C'], mode='weight')]),
        ('some-crossings', [AW, B3], [AT, B3], m2, [merge([cross('AB', 'A'), cross('AB', 'B')])]),
    ):
        for b in blocks:
            out.append((name, D(fw, b), D(ft, b), mp))
    return out


def names_of(comp, mapping):
    """trial variable -> (t, factor, ORIGINAL level name) for user-visible factors."""
    out = {}
    by = {}
    from ..designs import factor_key
    for f in comp.block.act_design:
        by[factor_key(f)] = f
    for (t, fk, li), v in comp.vt.items():
        if fk[1]:
            continue
        ln = by[fk].levels[li].name
        out[v] = (t, fk[0], mapping.get(fk[0], {}).get(ln, ln))
    return out


def count_models(comp, limit):
    inc = Incremental(comp.clauses)
    n = 0
    xs = []
    while n <= limit:
        sat, m = inc.solve()
        if not sat:
            break
        n += 1
        xs.append({v: bool(m[v]) for v in range(1, comp.support + 1)})
        inc.add([(-v if m[v] else v) for v in range(1, comp.support + 1)])
    return n, xs


def twin_check(sub, item):
    kind, dw, dt, mapping = item
    key = f'{kind}:{stable_hash([dw, dt])}'
    label = f'{kind}: {describe(dw)}  ~  twin {describe(dt)}'
    try:
        cw, ct = compile_design(dw, need_ref=False), compile_design(dt, need_ref=False)
    except (Rejected, Outside, IndexError, KeyError, AssertionError) as e:
        sub.case(key, nontrivial=False)
        return 'skip'
    sub.case(key, nontrivial=True)
    sub.programs += 1
    sub.sample({'kind': kind, 'weighted': describe(dw), 'twin': describe(dt)}, limit=4)
    data = {'kind': kind, 'weighted': dw, 'twin': dt, 'mapping': mapping}
    limit = 20000
    if cw.T_lib != ct.T_lib:
        sub.violation(f'trials:{key}', f'{label}: {cw.T_lib} vs {ct.T_lib} trials', dict(data, query='trials'))
        return 'violation'
    if kind == 'uncrossed':
        for a, b, d in ((cw, ct, 'weighted-not-in-twin'), (ct, cw, 'twin-not-in-weighted')):
            r = inclusion(a, b, sub)
            if r in ('incomparable', 'inconclusive'):
                sub.note_inconclusive(f'{key}: {d} {r}')
            elif r is not None:
                sub.violation(f'{d}:{key}', f'{label}: {r["sequence"]} ({d})', dict(data, query=d, x=r['x1']))
        return 'ok'
    if kind == 'some-crossings':
        nw, _ = count_models(cw, limit)
        nt, _ = count_models(ct, limit)
        sub.q('sat', 0, nw + nt)
        if nw != nt:
            sub.violation(f'count:{key}', f'{label}: {nw} distinct solutions, the copy-expanded twin has {nt}',
                          dict(data, query='count', nw=nw, nt=nt))
        return 'ok'
    # crossed: name-level projection equality
    vw, vt_ = names_of(cw, {}), names_of(ct, mapping)
    cells_w = {}
    for v, k in vw.items():
        cells_w.setdefault(k, []).append(v)
    cells_t = {}
    for v, k in vt_.items():
        cells_t.setdefault(k, []).append(v)
    if set(cells_w) != set(cells_t):
        sub.note_inconclusive(f'{key}: different cells')
        return 'ok'
    zt, zw = Z('t'), Z('w')
    link = [zw.var(cells_w[k][0]) == z3.Or([zt.var(v) for v in cells_t[k]]) for k in cells_w]
    clo = closure_of(cw)
    ne = not_exists_aux_z3(clo, zw) if clo.status != 'conflict' else z3.BoolVal(True)
    if ne is None:
        sub.note_inconclusive(f'{key}: undefined auxiliaries')
    else:
        d_w = zw.cnf(clo.d_clauses) if clo.status != 'conflict' else []
        r, m = z3_check(zt.cnf(ct.clauses) + link + d_w + [ne], sub)
        if r == 'sat':
            xt = {v: z3.is_true(m.eval(zt.var(v), model_completion=True)) for v in range(1, ct.support + 1)}
            seq = decode_model(ct, xt)
            sub.violation(f'twin-not-in-weighted:{key}', f'{label}: twin sequence {seq} has no weighted counterpart',
                          dict(data, query='twin-not-in-weighted', x=[v for v in xt if xt[v]]))
        elif r != 'unsat':
            sub.note_inconclusive(f'{key} twin-in-weighted {r}')
    # every weighted sequence has a twin model: enumerate the weighted side, solve the twin under name assumptions
    nw, xs = count_models(cw, limit)
    if nw > limit:
        sub.note_inconclusive(f'{key}: more than {limit} weighted sequences')
        return 'ok'
    sel = {}
    nxt = max(abs(l) for c in ct.clauses for l in c) + 1
    extra = []
    for k, vs in cells_t.items():
        sel[k] = nxt
        extra.append([-nxt] + vs)
        nxt += 1
    inc = Incremental(ct.clauses + extra)
    for x in xs:
        assume = [sel[vw[v]] for v in x if x[v] and v in vw]
        sat, _ = inc.solve(assume, sub)
        if not sat:
            seq = decode_model(cw, x)
            sub.violation(f'weighted-not-in-twin:{key}', f'{label}: weighted sequence {seq} has no copy assignment in the twin',
                          dict(data, query='weighted-not-in-twin', x=[v for v in x if x[v]]))
            break
    u = uniqueness(cw, sub)
    if u:
        sub.violation(f'weighted-not-unique:{key}', f'{label}: the weighted formula has two models for one sequence',
                      dict(data, query='unique', x=u['x']))
    return 'ok'


def replay(data):
    if 'desc' in data:
        return replay_design(data)
    cw, ct = compile_design(data['weighted'], need_ref=False), compile_design(data['twin'], need_ref=False)
    q = data['query']
    if q == 'trials':
        return cw.T_lib != ct.T_lib
    if q == 'count':
        return count_models(cw, 20000)[0] != count_models(ct, 20000)[0]
    xs = set(data['x'])
    if q in ('weighted-not-in-twin', 'weighted-not-in-twin'):
        return lib_sat_with_units(cw, {v: v in xs for v in range(1, cw.support + 1)})
    if q == 'twin-not-in-weighted':
        return lib_sat_with_units(ct, {v: v in xs for v in range(1, ct.support + 1)})
    return True


def run(ctx):
    ctx.functions += ['cross_block._desugar_factors_with_weights', 'primitive.SimpleFactor.desugar_weights',
                      'primitive.DerivedFactor.desugar_for_weights', 'cross_block._desugar_constraints',
                      'constraint.*.desugar', 'weight.combination_weight', 'constraint.Cross.apply']
    ctx.bounds = {'designs': f'{len(r_designs(ctx.tier))} weighted descriptors against the reference; {len(twins(ctx.tier))} '
                             'weighted/twin pairs (weights 2 and 3); thorough: plus every seeded random descriptor out of 1200 with a weighted level'}
    ctx.outside += ['constraints or derived levels that name a weighted level in the twin comparison', 'weights > 3']
    ctx.assumptions += ['reference rule 7 (part 1 only)', 'z3/CryptoMiniSat sound']
    ctx.rule = 'one case per weighted descriptor / twin pair'
    ds = list(r_designs(ctx.tier))
    if ctx.tier == 'thorough':
        # every seeded random descriptor (out of 1200) that has a weighted level, crossed or not
        from ..corpus import designs
        ds += [d for d in designs('thorough', ctx.seed, 1200)[-1200:]
               if any(isinstance(l, (list, tuple)) for f in d['factors'] if 'window' not in f for l in f['levels'])]
    res = pmap(ctx, check_design, [(d, ('sound', 'complete', 'trials')) for d in ds])
    ctx.extra['design_outcomes'] = {str(k): res.count(k) for k in set(res)}
    pmap(ctx, twin_check, twins(ctx.tier))
