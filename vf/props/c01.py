"""C01 Formula-based samplers return only valid trial sequences.

Per design (fixed corpus + seeded random descriptors): the clause list of the real pipeline (build_cnf) and the
reference semantics R over the same trial variables; the solver decides  F(x,a) & not R(x)  unsat.  A model is decoded
by the real Gen.decode/add_implied_levels, judged by the concrete validator and forced through the real
IterateSATGen file/solve/parse path before it is reported.  Link to the strategies: the file each formula strategy
hands to its solver is intercepted and compared clause-for-clause with build_cnf; 2 samples per strategy are validated.
"""
import z3

from ..common import HarnessError, pmap, quiet
from ..designcheck import check_design, design_items, replay_design, dkey
from ..designs import describe
from ..enginea import compile_design, reference, Rejected
from ..ref import Outside, validate
from ..sat import Z, z3_check

LEVEL = 'translation_validation'
STRATS = ('IterateSATGen', 'CMSGen', 'UniGen', 'IterateGen', 'UniformGen')


def replay(data):
    if data.get('query') == 'strategy':
        return bool(strategy_link(None, data['desc'], only=data['strategy']))
    return replay_design(data)


class _Stop(Exception):
    pass


def read_dimacs(text):
    clauses, ind, header = [], [], None
    for line in text.splitlines():
        line = line.strip()
        if not line:
            continue
        if line.startswith('c ind'):
            ind += [int(t) for t in line.split()[2:] if t != '0']
        elif line.startswith('c'):
            continue
        elif line.startswith('p'):
            header = line.split()
        else:
            lits = [int(t) for t in line.split()]
            assert lits[-1] == 0
            clauses.append(lits[:-1])
    return header, ind, clauses


def strategy_link(sub, desc, only=None):
    """Returns a list of problems (strategy, what)."""
    import sweetpea as sp
    import importlib
    snu = importlib.import_module('sweetpea._internal.core.generate.sample_non_uniform')
    su = importlib.import_module('sweetpea._internal.core.generate.sample_uniform')
    comp = compile_design(desc, need_ref=False)
    if comp.errors:
        return []
    want = sorted(sorted(c) for c in comp.clauses)
    problems = []
    for name in STRATS:
        if only and name != only:
            continue
        if name in ('IterateGen', 'UniformGen') and not comp.block.complex_factors_or_constraints:
            continue   # they delegate to RandomGen for such designs (C04's subject)
        captured = {}

        def spy(filename, initial_cnf, fresh, support, reqs):
            from sweetpea._internal.core.generate.utility import combine_and_save_cnf as real
            with quiet():
                real(filename, initial_cnf, fresh, support, reqs)
            captured['text'] = filename.read_text()
            raise _Stop()
        old1, old2 = snu.combine_and_save_cnf, su.combine_and_save_cnf
        snu.combine_and_save_cnf = spy
        su.combine_and_save_cnf = spy
        try:
            with quiet():
                getattr(sp, name).sample(comp.block, 1)
        except _Stop:
            pass
        finally:
            snu.combine_and_save_cnf, su.combine_and_save_cnf = old1, old2
        if 'text' not in captured:
            problems.append((name, 'did not write a formula'))
            continue
        header, ind, clauses = read_dimacs(captured['text'])
        if sorted(sorted(c) for c in clauses) != want:
            problems.append((name, 'clauses handed to the solver differ from build_cnf'))
        if ind != list(range(1, comp.support + 1)):
            problems.append((name, f'sampling set {ind[:5]}.. is not 1..{comp.support}'))
        # two real samples, judged concretely (pyunigen terminates the interpreter on an unsatisfiable formula,
        # so the samplers are only called when the formula has a model)
        from ..sat import solve
        if not solve(comp.clauses)[0]:
            continue
        with quiet():
            out = sp.synthesize_trials(comp.block, 2, getattr(sp, name))
        for seq in out:
            ok, bad = validate(desc, seq)
            if not ok:
                problems.append((name, f'returned {seq} violating {bad[:3]}'))
                break
    return problems


def _link(sub, desc):
    try:
        probs = strategy_link(sub, desc)
    except (Rejected, Outside):
        return
    sub.case('link:' + dkey(desc), nontrivial=True)
    for name, what in probs:
        data = {'desc': desc, 'query': 'strategy', 'strategy': name}
        sub.violation(f'strategy:{name}:{dkey(desc)}', f'{describe(desc)}: {name} {what}', data)


def run(ctx):
    ctx.functions += ['server.build_cnf', 'block.build_backend_request', 'constraint.*.apply', 'derivation_processor',
                      'core.generate.utility.combine_cnf_with_requests', 'logic.to_cnf_tseitin',
                      'sampling_strategy.base.Gen.decode', 'block.add_implied_levels',
                      'cross_block._create / Repeat / Merge / Nest / MultiCrossBlock']
    ctx.bounds = {'designs': 'fixed corpus (vf/corpus.py) + 40 (thorough 1500) seeded random descriptors',
                  'size': 'T <= 8 (thorough 12), <= 4 factors, <= 3 levels',
                  'models': 'all satisfying assignments of the compiled formula (solver verdict)'}
    ctx.outside += ['designs outside the generator space', 'designs the reference refuses to judge (listed under outside)',
                    'the SAT solver / sampler binaries (trusted to return models of the file they are given)']
    ctx.assumptions += ['reference semantics vf/ref.py (written from docs/_source/api/*.rst)', 'z3 sound']
    ctx.rule = ('one case per descriptor; non-trivial = constructor accepted, reference applicable, synthesis reports no '
                'error; distinct by descriptor hash')
    # vacuity: a deliberately weakened formula must be caught
    from ..corpus import D, A2, B2, cross
    comp = compile_design(D([A2, B2], cross('AB', 'AB', [['AtMostKInARow', 1, 'A', 'a0']])))
    R, _ = reference(comp)
    weak = [c for c in comp.clauses if len(c) != 1]   # drop unit clauses (cardinality assertions)
    r, _ = z3_check(comp.z.cnf(weak) + [z3.Not(z3.And([e for _, e in R]))], ctx)
    if r != 'sat':
        raise HarnessError('vacuity: soundness query cannot see a weakened formula')
    items = design_items(ctx, ('sound',), n=1500 if ctx.tier == 'thorough' else None)
    res = pmap(ctx, check_design, items)
    ctx.extra['design_outcomes'] = {k: res.count(k) for k in set(res)}
    oks = [d for (d, _), r in zip(items, res) if r == 'ok']
    linked = oks[: (60 if ctx.tier == 'thorough' else 12)]
    # plus one design per residue of the trial-variable count modulo 10 (the sampling-set lines hold 10 variables each)
    seen = set()
    for d in oks:
        try:
            sup = compile_design(d, need_ref=False).support % 10
        except Exception:
            continue
        if sup not in seen:
            seen.add(sup)
            if d not in linked:
                linked.append(d)
    pmap(ctx, _link, linked)
