"""C03 Each trial sequence is exactly one model of the compiled formula.

Per design: the monolithic query  F(x,a) & F(x,a') & a != a'  must be unsat (all variables symbolic); the definability
closure gives the same fact constructively (every auxiliary has a total+functional definition; counts in evidence).
The sampling set written by save_cnf and read back by the library's parse_cnf_file must be exactly 1..support.
"""
from pathlib import Path

from ..common import HarnessError, pmap, quiet
from ..designcheck import check_design, design_items, replay_design, dkey
from ..designs import describe
from ..enginea import compile_design, Rejected
from ..ref import Outside
from ..sat import uniqueness_query

LEVEL = 'translation_validation'


def replay(data):
    if data.get('query') == 'sampling-set':
        return bool(_sampling_set_problem(data['desc']))
    return replay_design(data)


def _sampling_set_problem(desc):
    from sweetpea._internal.core.cnf import CNF
    from sweetpea._internal.core.generate.utility import save_cnf
    from sweetpea._internal.core.generate.tools.unigen import parse_cnf_file
    comp = compile_design(desc, need_ref=False)
    import os
    p = Path(f'c03-{os.getpid()}.cnf')
    save_cnf(p, CNF(comp.clauses), support=comp.support)
    clauses, sset, nv = parse_cnf_file(p)
    p.unlink()
    if sset != list(range(1, comp.support + 1)):
        return f'sampling set read back is {sset[:6]}..({len(sset)}) instead of 1..{comp.support}'
    return None


def _sset(sub, desc):
    try:
        prob = _sampling_set_problem(desc)
    except (Rejected, Outside, IndexError, KeyError):
        return
    sub.case('sset:' + dkey(desc))
    if prob:
        sub.violation(f'sampling-set:{dkey(desc)}', f'{describe(desc)}: {prob}', {'desc': desc, 'query': 'sampling-set'})


def run(ctx):
    ctx.functions += ['server.build_cnf', 'logic.to_cnf_tseitin', 'core.cnf.CNF.pop_count / adders / _make_same_length',
                      'constraint.*.apply', 'core.generate.utility.save_cnf', 'tools.unigen.parse_cnf_file']
    ctx.bounds = {'designs': 'fixed corpus + 40 (thorough 1500) seeded random descriptors; T <= 8 (12)',
                  'models': 'all pairs of models of the complete formula (solver verdict)'}
    ctx.outside += ['designs outside the generator space']
    ctx.assumptions += ['CryptoMiniSat sound', 'trial variables are 1..variables_per_sample() (checked by C14)']
    ctx.rule = 'one case per descriptor; non-trivial = the formula has at least one auxiliary variable'
    # vacuity: freeing an auxiliary must be noticed
    from ..corpus import D, A2, B2, cross
    comp = compile_design(D([A2, B2], cross('AB', 'AB')), need_ref=False)
    from ..sat import definability_closure
    clo = definability_closure(comp.clauses, comp.support)
    victim = clo.order[0]
    freed = [c for c in comp.clauses if all(abs(l) != victim for l in c)] + [[victim, -victim]]
    if uniqueness_query(freed, comp.support, ctx) is None:
        raise HarnessError('vacuity: uniqueness query does not see a freed auxiliary')
    items = design_items(ctx, ('unique',), n=1500 if ctx.tier == 'thorough' else None)
    res = pmap(ctx, check_design, items)
    ctx.extra['design_outcomes'] = {k: res.count(k) for k in set(res)}
    pmap(ctx, _sset, [d for (d, _), r in zip(items, res) if r in ('ok', 'errors')])
