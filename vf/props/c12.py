"""C12 Adder and population-count circuits compute sums.

Each builder of core/cnf.py is called on a fresh CNF with concrete input variables 1..m. With every variable symbolic:
  function     CNF(in,out,aux) & not spec(in,out)          must be unsat   (spec in integer arithmetic)
  totality     D(in,aux) & not Rest(in,aux)                must be unsat   (every input assignment extends)
  uniqueness   CNF(in,a) & CNF(in,a') & a != a'            must be unsat   (no other freedom)
Saturating builders: the specification is the one the cardinality layer relies on: the top output bit is set iff the
true sum is >= 2^(saturate_at-1); when it is clear the outputs equal the sum exactly.
"""
import math

import z3

from ..common import HarnessError, pmap
from ..sat import Z, z3_check, definability_closure, not_exists_aux_z3, uniqueness_query, unary_counter, solve, max_var

LEVEL = 'translation_validation'


def fresh_cnf(m):
    from sweetpea._internal.core.cnf import CNF
    return CNF.from_fresh(m)


def V(i):
    from sweetpea._internal.core.cnf import Var
    return Var(i)


def val_msb(z, bits):
    """Integer value of an MSB-first list of Vars."""
    n = len(bits)
    return z3.Sum([z3.If(z.var(int(b)), 2 ** (n - 1 - i), 0) for i, b in enumerate(bits)]) if bits else z3.IntVal(0)


def val_lsb(z, bits):
    return z3.Sum([z3.If(z.var(int(b)), 2 ** i, 0) for i, b in enumerate(bits)]) if bits else z3.IntVal(0)


def sat_spec(z, out_msb, true_sum, saturate_at):
    """Specification of a saturating result (see module docstring)."""
    w = len(out_msb)
    if w < saturate_at or saturate_at == 0:
        return val_msb(z, out_msb) == true_sum
    top = z.var(int(out_msb[0]))
    thr = 2 ** (saturate_at - 1)
    return z3.And(top == (true_sum >= thr), z3.Implies(z3.Not(top), val_msb(z, out_msb) == true_sum))


def circuits(tier):
    """Yields (name, params, m_inputs, builder(cnf)->(spec_fn(z))) ."""
    wmax = 8 if tier == 'thorough' else 6
    smax = 6 if tier == 'thorough' else 5
    nmax = 24 if tier == 'thorough' else 12

    def half(cnf):
        c, s = cnf.half_adder(V(1), V(2))
        return lambda z: z3.And(z.var(int(c)) == z3.And(z.var(1), z.var(2)), z.var(int(s)) == z3.Xor(z.var(1), z.var(2)))
    yield 'half_adder', {}, 2, half

    def full(cnf):
        c, s = cnf.full_adder(V(1), V(2), V(3))
        return lambda z: val_lsb(z, [s, c]) == val_lsb(z, [V(1)]) + val_lsb(z, [V(2)]) + val_lsb(z, [V(3)])
    yield 'full_adder', {'cin': True}, 3, full

    def full_nocin(cnf):
        c, s = cnf.full_adder(V(1), V(2), None)
        return lambda z: val_lsb(z, [s, c]) == val_lsb(z, [V(1)]) + val_lsb(z, [V(2)])
    yield 'full_adder', {'cin': None}, 2, full_nocin

    def satadd(cnf):
        s = cnf.saturate_adder(V(1), V(2), V(3))
        return lambda z: z.var(int(s)) == z3.Or(z.var(1), z.var(2), z.var(3))
    yield 'saturate_adder', {'cin': True}, 3, satadd

    def satadd_nocin(cnf):
        s = cnf.saturate_adder(V(1), V(2), None)
        return lambda z: z.var(int(s)) == z3.Or(z.var(1), z.var(2))
    yield 'saturate_adder', {'cin': None}, 2, satadd_nocin

    for w in range(1, wmax + 1):
        def ripple(cnf, w=w):
            xs = [V(i) for i in range(1, w + 1)]
            ys = [V(i) for i in range(w + 1, 2 * w + 1)]
            c, ss = cnf.ripple_carry(xs, ys)
            return lambda z: val_lsb(z, list(ss) + [c]) == val_msb(z, xs) + val_msb(z, ys)
        yield 'ripple_carry', {'width': w}, 2 * w, ripple

    for w in range(1, smax + 1):
        for sat in range(w, w + 2):
            def rsat(cnf, w=w, sat=sat):
                xs = [V(i) for i in range(1, w + 1)]
                ys = [V(i) for i in range(w + 1, 2 * w + 1)]
                out = cnf.ripple_saturate(xs, ys, sat)
                if len(out) != (w + 1 if w < sat else w):
                    raise HarnessError(f'ripple_saturate width {len(out)} for w={w} sat={sat}')
                return lambda z: sat_spec(z, out, val_msb(z, xs) + val_msb(z, ys), sat)
            yield 'ripple_saturate', {'width': w, 'saturate_at': sat}, 2 * w, rsat

    for n in range(1, nmax + 1):
        for sat in range(0, 7):
            def pop(cnf, n=n, sat=sat):
                xs = [V(i) for i in range(1, n + 1)]
                out = cnf.pop_count(xs, sat)
                cnt = z3.Sum([z3.If(z3.Bool(f'v{i}'), 1, 0) for i in range(1, n + 1)])
                full_w = (math.ceil(math.log(n, 2)) if n > 1 else 0) + 1
                exp_w = full_w if sat == 0 else min(full_w, sat)
                if n > 1 and len(out) != exp_w:
                    raise HarnessError(f'pop_count width {len(out)} != {exp_w} for n={n} sat={sat}')
                spec = lambda z: sat_spec(z, out, cnt, sat)
                spec.popcount = (n, out, sat)
                return spec
            yield 'pop_count', {'n': n, 'saturate_at': sat}, n, pop


def popcount_function_sat(clauses, n, out_msb, saturate_at, ctx):
    """CNF & counter & OR_c (count==c & outputs wrong for c): pure SAT, used where z3 arithmetic is slow.
    Returns None (unsat), 'unknown', or a model list."""
    xs = list(range(1, n + 1))
    nv = max(max_var(clauses), n) + 1
    ref, u, nv = unary_counter(xs, nv)
    w = len(out_msb)
    outs = [int(b) for b in out_msb]
    cl = [list(c) for c in clauses] + ref
    sels = []
    for c in range(n + 1):
        sel = nv
        nv += 1
        sels.append(sel)
        if c >= 1:
            cl.append([-sel, u[c]])
        if c + 1 <= n:
            cl.append([-sel, -u[c + 1]])
        exact = saturate_at == 0 or w < saturate_at or c < 2 ** (saturate_at - 1)
        if exact:
            if c >= 2 ** w:
                continue   # not representable: any output is wrong
            cl.append([-sel] + [(-o if (c >> (w - 1 - i)) & 1 else o) for i, o in enumerate(outs)])
        else:
            cl.append([-sel, -outs[0]])
    cl.append(sels)
    sat, model = solve(cl, ctx=ctx, time_limit=600)
    if sat is None:
        return 'unknown'
    return model if sat else None


def replay(data):
    """Rebuild the circuit, fix the inputs, ask the library's own SAT path; compare with integer arithmetic."""
    from sweetpea._internal.core.cnf import CNF
    from sweetpea._internal.core import cnf_is_satisfiable
    from ..common import quiet
    name, params, tier = data['name'], data['params'], data.get('tier', 'thorough')
    for nm, pr, m, builder in circuits(tier):
        if nm == name and pr == params:
            cnf = fresh_cnf(m)
            spec = builder(cnf)
            clauses = cnf.as_list_of_list_of_ints()
            asg = {int(k): v for k, v in data['assignment'].items()}
            if data['query'] == 'function':
                units = [[v if b else -v] for v, b in asg.items()]
                with quiet():
                    satisfiable = bool(cnf_is_satisfiable(CNF(clauses + units)))
                z = Z()
                sub = [(z.var(v), z3.BoolVal(b)) for v, b in asg.items()]
                ok = z3.is_true(z3.simplify(z3.substitute(spec(z), *sub)))
                return satisfiable and not ok
            ins = [[v if asg[v] else -v] for v in range(1, m + 1)]
            if data['query'] == 'totality':
                with quiet():
                    return not bool(cnf_is_satisfiable(CNF(clauses + ins)))
            if data['query'] == 'uniqueness':
                other = {int(k): v for k, v in data['assignment_b'].items()}
                with quiet():
                    a = bool(cnf_is_satisfiable(CNF(clauses + [[v if b else -v] for v, b in asg.items()])))
                    b = bool(cnf_is_satisfiable(CNF(clauses + [[v if bb else -v] for v, bb in other.items()])))
                return a and b and asg != other and all(asg[v] == other[v] for v in range(1, m + 1))
    raise HarnessError('replay: circuit not found')


def run(ctx):
    ctx.functions += [f'core.cnf.CNF.{f}' for f in ('half_adder', 'full_adder', 'saturate_adder', 'ripple_carry',
                                                    'ripple_saturate', 'pop_count', '_pop_count_layer')]
    thorough = ctx.tier == 'thorough'
    ctx.bounds = {'ripple_carry_width': '1..8' if thorough else '1..6', 'ripple_saturate_width': '1..6' if thorough else '1..5',
                  'ripple_saturate_at': 'width..width+1', 'pop_count_n': '1..24 (n>12: SAT miter against an independent unary counter)' if thorough else '1..12',
                  'pop_count_saturate_at': '0..6'}
    ctx.outside += ['operand lists of different length (no caller produces them)', 'widths beyond the bound',
                    'ripple_saturate with more variables than saturate_at (excluded by the code comment)']
    ctx.assumptions += ['saturating specification: top bit set iff true sum >= 2^(saturate_at-1); exact when clear',
                        'z3 linear integer arithmetic and CryptoMiniSat are sound']
    ctx.rule = 'every builder x parameter tuple in the bound; non-trivial = circuit has at least one auxiliary variable'
    # vacuity: a wrong spec must be refuted
    cnf = fresh_cnf(2)
    c, s = cnf.half_adder(V(1), V(2))
    z = Z()
    r, _ = z3_check(z.cnf(cnf.as_list_of_list_of_ints()) + [z3.Not(z.var(int(s)) == z3.And(z.var(1), z.var(2)))], ctx)
    if r != 'sat':
        raise HarnessError('vacuity: function query cannot refute a wrong specification')
    n_circ = len(list(circuits(ctx.tier)))
    order = sorted(range(n_circ), reverse=True)
    pmap(ctx, _one, order)
    ctx.exhaustive = True


def _one(ctx, idx):
    name, params, m, builder = list(circuits(ctx.tier))[idx]
    cnf = fresh_cnf(m)
    spec = builder(cnf)
    clauses = cnf.as_list_of_list_of_ints()
    key = f'{name}:{params}'
    ctx.case(key, nontrivial=len(clauses) > 0)
    ctx.programs += 1
    if name == 'pop_count' and params == {'n': 5, 'saturate_at': 3}:
        ctx.sample({'builder': name, **params, 'clauses': len(clauses)})
    z = Z()
    F = z.cnf(clauses)
    allv = sorted({abs(l) for c in clauses for l in c} | set(range(1, m + 1)))
    if getattr(spec, 'popcount', None) and m > 12:
        pm = popcount_function_sat(clauses, *spec.popcount, ctx)
        r = 'unsat' if pm is None else ('unknown' if pm == 'unknown' else 'sat')
        asg = {str(v): pm[v] for v in allv} if r == 'sat' else None
    else:
        r, mdl = z3_check(F + [z3.Not(spec(z))], ctx)
        asg = {str(v): z3.is_true(mdl.eval(z.var(v), model_completion=True)) for v in allv} if r == 'sat' else None
    if r == 'sat':
        data = {'name': name, 'params': params, 'query': 'function', 'assignment': asg, 'tier': ctx.tier}
        if not replay(data):
            raise HarnessError(f'{key} function counterexample did not reproduce')
        ctx.violation(f'{key}:function', f'{name}{params}: outputs differ from the specified sum', data)
    elif r != 'unsat':
        ctx.note_inconclusive(f'{key} function {r}')
    clo = definability_closure(clauses, m)
    ctx.solver_s += clo.seconds
    if clo.status == 'conflict':
        data = {'name': name, 'params': params, 'query': 'totality',
                'assignment': {str(v): False for v in range(1, m + 1)}, 'tier': ctx.tier}
        if not replay(data):
            raise HarnessError(f'{key} conflict did not reproduce')
        ctx.violation(f'{key}:totality', f'{name}{params}: clauses are unsatisfiable', data)
    else:
        ne = not_exists_aux_z3(clo, z)
        if ne is None:
            ctx.note_inconclusive(f'{key} totality: {len(clo.undefined)} undefined auxiliaries')
        else:
            r, mdl = z3_check(z.cnf(clo.d_clauses) + [ne], ctx)
            if r == 'sat':
                asg = {str(v): z3.is_true(mdl.eval(z.var(v), model_completion=True)) for v in range(1, m + 1)}
                data = {'name': name, 'params': params, 'query': 'totality', 'assignment': asg, 'tier': ctx.tier}
                if not replay(data):
                    raise HarnessError(f'{key} totality counterexample did not reproduce')
                ctx.violation(f'{key}:totality', f'{name}{params}: some input assignment has no extension', data)
            elif r != 'unsat':
                ctx.note_inconclusive(f'{key} totality {r}')
    u = uniqueness_query(clauses, m, ctx)
    if u == 'unknown':
        ctx.note_inconclusive(f'{key} uniqueness unknown')
    elif u is not None:
        ma, mb = u
        data = {'name': name, 'params': params, 'query': 'uniqueness', 'tier': ctx.tier,
                'assignment': {str(v): b for v, b in ma.items()}, 'assignment_b': {str(v): b for v, b in mb.items()}}
        if not replay(data):
            raise HarnessError(f'{key} uniqueness counterexample did not reproduce')
        ctx.violation(f'{key}:uniqueness', f'{name}{params}: auxiliaries not determined by the inputs', data)
