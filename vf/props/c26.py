"""C26 Block constraints apply per repetition; combinator constraints apply globally.

For every constraint kind placed (i) on the inner block and (ii) on the combinator, under Repeat, Merge and Nest, with
and without a preamble: the compiled formula is decided equal to the reference (rule 6: windows
[k(N_b-p_b), k(N_b-p_b)+N_b) for block constraints, [0,T) for combinator constraints) in both directions.  A
discrimination query (projection inclusion between the two placements) must fail in at least one direction, so that a
change collapsing the two scopes cannot pass unnoticed.
"""
from ..common import HarnessError, pmap, stable_hash
from ..corpus import D, A2, A3, B2, B3, C2, C3, TRA, cross, multi, repeat, merge, nest
from ..designcheck import check_design, replay_design
from ..designs import describe
from ..enginea import compile_design, inclusion, Rejected

LEVEL = 'translation_validation'

KINDS = [['AtMostKInARow', 1, 'B', 'b0'], ['AtLeastKInARow', 2, 'B', 'b0'], ['ExactlyKInARow', 2, 'B', 'b1'],
         ['ExactlyK', 2, 'B', 'b0'], ['Pin', 0, 'B', 'b1'], ['Pin', -1, 'B', 'b0'], ['AtMostKInARow', 2, 'B', None]]


def placements(tier):
    """Yields (name, inner-placement descriptor, combinator-placement descriptor)."""
    out = []
    for c in KINDS:
        # Repeat, no preamble: B is not crossed so the constraint has room to differ
        fs = [A2, B2, C2]
        out.append((f'repeat:{c}', D(fs, repeat(cross('ABC', 'AC', [c]), [['MinimumTrials', 8]])),
                    D(fs, repeat(cross('ABC', 'AC'), [['MinimumTrials', 8], c]))))
        # Repeat with a preamble (transition in the crossing): windows overlap by one trial
        fs = [A2, B2, TRA]
        out.append((f'repeat-preamble:{c}', D(fs, repeat(cross('ABR', 'AR', [c]), [['MinimumTrials', 9]])),
                    D(fs, repeat(cross('ABR', 'AR'), [['MinimumTrials', 9], c]))))
        # the constrained factor is itself a transition factor (its variables are numbered by applicable trials)
        if c[2] == 'B' and c[0] != 'Pin':
            cr = [c[0], c[1], 'S', None if c[3] is None else ('s0' if c[3] == 'b0' else 's1')]
            fs = [A2, B2, TRA, {'name': 'S', 'window': {'kind': 'transition', 'factors': ['B']},
                                'levels': [{'name': 's0', 'pred': ['same']}, {'name': 's1', 'pred': ['diff']}]}]
            out.append((f'repeat-preamble-derived:{cr}', D(fs, repeat(cross('ABRS', 'AR', [cr]), [['MinimumTrials', 9]])),
                        D(fs, repeat(cross('ABRS', 'AR'), [['MinimumTrials', 9], cr]))))
        # Merge in REPEAT mode: crossing of size 2 next to one of size 4 or 6
        fs = [A2, B2, C2]
        out.append((f'merge:{c}', D(fs, merge([cross('AB', 'A', [c]), cross('ABC', 'AC')])),
                    D(fs, merge([cross('AB', 'A'), cross('ABC', 'AC')], [c]))))
        # Nest: constraint on the inner block vs on the Nest
        fs = [A2, B2, C2]
        out.append((f'nest:{c}', D(fs, nest(cross('A', 'A'), cross('BC', 'C', [c]))),
                    D(fs, nest(cross('A', 'A'), cross('BC', 'C'), [c]))))
        # weighted uncrossed factor: the constraint is rewritten onto the desugared copies
        BW = {'name': 'B', 'levels': [['b0', 2], 'b1']}
        if c[3] is not None:
            fs = [A2, BW, C2]
            out.append((f'repeat-weighted:{c}', D(fs, repeat(cross('ABC', 'AC', [c]), [['MinimumTrials', 8]])),
                        D(fs, repeat(cross('ABC', 'AC'), [['MinimumTrials', 8], c]))))
        if tier == 'thorough':
            fs = [A3, B2, C2]
            out.append((f'repeat3:{c}', D(fs, repeat(cross('ABC', 'A', [c]), [['MinimumTrials', 9]])),
                        D(fs, repeat(cross('ABC', 'A'), [['MinimumTrials', 9], c]))))
            fs = [A2, B2, C2]
            out.append((f'merge-weight:{c}', D(fs, merge([cross('AB', 'A', [c]), cross('BC', 'C', [['MinimumTrials', 4]])],
                                                         mode='weight')),
                        D(fs, merge([cross('AB', 'A'), cross('BC', 'C', [['MinimumTrials', 4]])], [c], mode='weight'))))
    return out


def discriminate(sub, item):
    name, inner, outer = item
    key = 'discr:' + stable_hash([inner, outer])
    try:
        ci, co = compile_design(inner, need_ref=False), compile_design(outer, need_ref=False)
    except (Rejected, IndexError, KeyError):
        return
    if ci.errors or co.errors:
        return
    r1 = inclusion(ci, co, sub)
    r2 = inclusion(co, ci, sub)
    sub.case(key, nontrivial=True)
    if r1 is None and r2 is None:
        from ..sat import solve
        if solve(ci.clauses)[0]:
            sub.extra.setdefault('placements_that_coincide', []).append(name)


def replay(data):
    return replay_design(data)


def run(ctx):
    ctx.functions += ['cross_block.map_block_trial_ranges', 'block.build_variable_lists', 'block.get_trial_numbers',
                      'constraint._KInARow._build_variable_sublistss', 'constraint.*.init_within_block',
                      'cross_block.Repeat / Merge / Nest']
    ctx.bounds = {'constraints': [str(k) for k in KINDS], 'combinators': 'Repeat, Repeat with preamble, Merge(REPEAT), Nest'
                                 + (', Repeat of 3-level, Merge(WEIGHT)' if ctx.tier == 'thorough' else '')}
    ctx.outside += ['trial counts that are not a whole number of block repetitions', 'Sequential/LatinSquare placements']
    ctx.assumptions += ['reference semantics vf/ref.py rule 6', 'z3/CryptoMiniSat sound']
    ctx.rule = 'two cases per (constraint, combinator): the two placements; plus one discrimination pair'
    pl = placements(ctx.tier)
    items = []
    for name, inner, outer in pl:
        items.append((inner, ('sound', 'complete', 'trials')))
        items.append((outer, ('sound', 'complete', 'trials')))
    res = pmap(ctx, check_design, items)
    ctx.extra['design_outcomes'] = {str(k): res.count(k) for k in set(res)}
    pmap(ctx, discriminate, pl)
    same = ctx.extra.get('placements_that_coincide', [])
    if len(same) > len(pl) // 2:
        raise HarnessError(f'vacuity: most placements do not discriminate: {same}')
