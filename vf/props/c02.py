"""C02 Exhausting IterateSATGen yields exactly the valid sequences.

Per design: (a) soundness  F & not R  unsat; (b) completeness  R & D & not Rest  unsat after the definability closure,
so models(F)|x = models(R); (c) end to end for designs with few solutions: the real IterateSATGen is asked for more
sequences than exist, its raw solutions are captured, they must be pairwise distinct on the trial variables, valid,
and  R(x) & x not in returned  must be unsat (nothing valid is missing).  A design whose synthesis reports an error
must have no valid sequence.
"""
import importlib

import z3

from ..common import HarnessError, pmap, quiet
from ..designcheck import check_design, design_items, replay_design, dkey
from ..designs import describe
from ..enginea import compile_design, reference, Rejected, decode_model
from ..ref import Outside, validate
from ..sat import z3_check, solve

LEVEL = 'translation_validation'


def exhaust_iterate_sat(comp, n):
    """Raw solutions (lists of literals over the trial variables) from the real IterateSATGen.sample."""
    import sweetpea as sp
    mod = importlib.import_module('sweetpea._internal.sampling_strategy.iterate_sat')
    captured = {}
    orig = mod.sample_non_uniform

    def spy(*a, **k):
        sols = orig(*a, **k)
        captured['sols'] = [list(s.assignment) for s in sols]
        return sols
    mod.sample_non_uniform = spy
    try:
        with quiet():
            res = sp.synthesize_trials(comp.block, n, sp.IterateSATGen)
    finally:
        mod.sample_non_uniform = orig
    return captured.get('sols', []), res


def e2e(sub, item):
    desc, limit = item
    key = dkey(desc)
    try:
        comp = compile_design(desc)
        if comp.sem_error or comp.errors or comp.sem.status != 'ok':
            return
        R, problems = reference(comp)
    except (Rejected, Outside, IndexError, KeyError, AssertionError):
        return
    if R is None:
        return
    # cheap pre-count with the SAT solver on the compiled formula to respect the bound
    from ..sat import Incremental
    inc = Incremental(comp.clauses)
    cnt = 0
    while cnt <= limit:
        sat, m = inc.solve()
        if not sat:
            break
        cnt += 1
        inc.add([(-v if m[v] else v) for v in range(1, comp.support + 1)])
    if cnt > limit:
        sub.extra['e2e_skipped_too_many'] = sub.extra.get('e2e_skipped_too_many', 0) + 1
        return
    sols, res = exhaust_iterate_sat(comp, limit + 5)
    sub.case('e2e:' + key, nontrivial=len(sols) >= 2)
    sub.extra['e2e_sequences'] = sub.extra.get('e2e_sequences', 0) + len(sols)
    label = describe(desc)
    data = {'desc': desc, 'query': 'e2e', 'limit': limit}
    xs = [tuple(sorted(abs(l) for l in s if l > 0 and abs(l) <= comp.support)) for s in sols]
    problems = []
    if len(set(xs)) != len(xs):
        problems.append('the same trial assignment is returned twice')
    for seq in res:
        ok, bad = validate(desc, seq)
        if not ok:
            problems.append(f'returned sequence {seq} violates {bad[:3]}')
            break
    z = comp.z
    block = [z3.Or([z.var(v) if v not in set(x) else z3.Not(z.var(v)) for v in range(1, comp.support + 1)]) for x in xs]
    r, m = z3_check([e for _, e in R] + block, sub)
    if r == 'sat':
        problems.append(f'{len(xs)} sequences returned but a further valid one exists')
    elif r != 'unsat':
        sub.note_inconclusive(f'e2e {key} {r}')
    if len(res) != len(sols):
        problems.append('synthesize_trials dropped solutions')
    if problems:
        if not replay(data):
            raise HarnessError(f'{label}: end-to-end discrepancy did not reproduce: {problems}')
        sub.violation(f'e2e:{key}', f'{label}: exhausting IterateSATGen: {"; ".join(problems)}', data)


def replay(data):
    if data.get('query') == 'e2e':
        desc, limit = data['desc'], data['limit']
        comp = compile_design(desc)
        R, _ = reference(comp)
        sols, res = exhaust_iterate_sat(comp, limit + 5)
        xs = [tuple(sorted(abs(l) for l in s if l > 0 and abs(l) <= comp.support)) for s in sols]
        if len(set(xs)) != len(xs) or any(not validate(desc, s)[0] for s in res):
            return True
        z = comp.z
        block = [z3.Or([z.var(v) if v not in set(x) else z3.Not(z.var(v)) for v in range(1, comp.support + 1)])
                 for x in xs]
        return z3_check([e for _, e in R] + block)[0] == 'sat'
    return replay_design(data)


def _selftest(sub, item):
    from ..enginea import count_ref_models
    desc, want = item
    comp = compile_design(desc)
    R, _ = reference(comp)
    n = count_ref_models(comp, R, limit=2000) if comp.sem.status == 'ok' else 0
    sub.q('sat', 0, n)
    if n != want:
        raise HarnessError(f'reference semantics counts {n} sequences for {describe(desc)}; the acceptance suite asserts {want}')
    return True


def run(ctx):
    thorough = ctx.tier == 'thorough'
    limit = 5000 if thorough else 400
    ctx.functions += ['server.build_cnf', 'constraint.Cross.apply / __add_weight_constraint', 'constraint.*.apply',
                      'sampling_strategy.iterate_sat.IterateSATGen.sample', 'core.generate.sample_non_uniform.'
                      'compute_solutions / update_file', 'tools.cryptominisat.cryptominisat_solve', 'Gen.decode']
    ctx.bounds = {'designs': 'fixed corpus + 40 (thorough 400) seeded random descriptors; T <= 8 (12)',
                  'end_to_end': f'designs with <= {limit} solutions are exhausted through the real IterateSATGen'}
    ctx.outside += ['designs outside the generator space / the reference refuses to judge',
                    f'end-to-end exhaustion of designs with more than {limit} solutions (closure-form equality still holds)']
    ctx.assumptions += ['reference semantics vf/ref.py', 'z3 and CryptoMiniSat sound']
    ctx.rule = 'one case per descriptor (+ one per exhausted design); non-trivial = accepted, reference applicable, no error'
    # vacuity: completeness must notice a formula that is too strong
    from ..corpus import D, A2, B2, cross
    from ..enginea import closure_of
    from ..sat import not_exists_aux_z3
    comp = compile_design(D([A2, B2], cross('AB', 'AB')))
    R, _ = reference(comp)
    comp.clauses = comp.clauses + [[-1]]
    clo = closure_of(comp)
    r, _ = z3_check(comp.z.cnf(clo.d_clauses) + [e for _, e in R] + [not_exists_aux_z3(clo, comp.z)], ctx)
    if r != 'sat':
        raise HarnessError('vacuity: completeness query cannot see a strengthened formula')
    # the reference itself is tied to the repository's hand-computed acceptance numbers (solver enumeration of R)
    from ..corpus import acceptance_corpus, ACCEPTANCE_COUNTS
    res = pmap(ctx, _selftest, list(zip(acceptance_corpus(), ACCEPTANCE_COUNTS)))
    ctx.extra['reference_counts_matching_acceptance_tests'] = sum(1 for r in res if r)
    items = design_items(ctx, ('sound', 'complete'))
    res = pmap(ctx, check_design, items)
    ctx.extra['design_outcomes'] = {k: res.count(k) for k in set(res)}
    pmap(ctx, e2e, [(d, limit) for (d, _), r in zip(items, res) if r == 'ok'])
