"""C25 Nest holds outer levels fixed over each inner run.

Nest designs (outer/inner pairs without preamble trials, incl. inner MultiCrossBlock / Repeat and nested Nest) are
compiled by the real constructors; F is decided equal to the reference (rule 8: groups of the inner length, outer
crossed factors constant per group, outer crossing over groups, inner crossing and constraints per group) in both
directions, the trial count must be the product, and Nest(Nest(a,b),c) vs Nest(a,Nest(b,c)) are compared by projection
inclusion both ways.
"""
import random

from ..common import HarnessError, pmap, stable_hash
from ..corpus import D, A2, A3, B2, B3, C2, C3, cross, multi, repeat, nest
from ..designcheck import check_design, replay_design
from ..designs import describe
from ..enginea import compile_design, inclusion, Rejected
from . import c24

LEVEL = 'translation_validation'
E2 = {'name': 'E', 'levels': ['e0', 'e1']}


def nest_designs(tier, seed):
    out = []
    add = out.append
    for fa, fb in ((A2, B2), (A2, B3), (A3, B2), (A3, B3)):
        add(D([fa, fb], nest(cross('A', 'A'), cross('B', 'B'))))
    add(D([A2, B2, C2], nest(cross('A', 'A'), cross('BC', 'B'))))
    add(D([A2, B2, C2], nest(cross('A', 'A'), cross('BC', 'BC'))))
    add(D([A2, B2, C2], nest(cross('AC', 'A'), cross('B', 'B'))))
    add(D([A2, B2, C2], nest(cross('AC', 'AC'), cross('B', 'B'))))
    add(D([A2, B2, C2], nest(cross('A', 'A'), multi('BC', ['B', 'C']))))
    add(D([A2, B2, C3], nest(cross('A', 'A'), multi('BC', ['B', 'C'], mode='repeat'))))
    add(D([A2, B2, C3], nest(cross('A', 'A'), multi('BC', ['B', 'C'], mode='weight'))))
    add(D([A2, B2], nest(cross('A', 'A'), repeat(cross('B', 'B'), [['MinimumTrials', 4]]))))
    add(D([A2, B2], nest(cross('A', 'A', [['MinimumTrials', 4]]), cross('B', 'B'))))
    add(D([A2, B2], nest(cross('A', 'A'), cross('B', 'B', [['MinimumTrials', 3]]))))
    add(D([A3, B2], nest(cross('A', 'A', [['Sequential', 'A']]), cross('B', 'B'))))
    add(D([A3, B3], nest(cross('A', 'A', [['Sequential', 'A']]), cross('B', 'B'))))
    add(D([A3, B2], nest(cross('A', 'A'), cross('B', 'B', [['Sequential', 'B']]))))
    add(D([A3, B2], nest(cross('A', 'A', [['Pin', 0, 'A', 'a1']]), cross('B', 'B'))))
    add(D([A3, B2], nest(cross('A', 'A', [['Pin', -1, 'A', 'a1']]), cross('B', 'B', [['Pin', 0, 'B', 'b1']]))))
    add(D([A2, B2], nest(cross('A', 'A', [['MinimumTrials', 4], ['ExactlyK', 2, 'A', 'a0']]), cross('B', 'B'))))
    add(D([A2, B3], nest(cross('A', 'A'), cross('B', 'B', [['AtMostKInARow', 1, 'B', 'b0']]))))
    add(D([A2, B2, C2], nest(cross('A', 'A'), cross('BC', 'B', [['AtLeastKInARow', 2, 'C', 'c0']]))))
    add(D([A2, B2, C2], nest(cross('A', 'A'), cross('BC', 'B', [['ExactlyK', 1, 'C', 'c0']]))))
    add(D([A2, B2], nest(cross('A', 'A'), cross('B', 'B'), [['AtMostKInARow', 1, 'B', 'b0']])))
    add(D([A2, B2], nest(cross('A', 'A'), cross('B', 'B'), [['AtMostKInARow', 2, 'A', 'a0']])))
    add(D([A2, B2], nest(cross('A', 'A'), cross('B', 'B'), [['Pin', 1, 'B', 'b0']])))
    # MinimumTrials on the Nest, not a multiple of the inner length, with a Pin in the outer block
    add(D([A3, B3], nest(cross('A', 'A', [['Pin', 0, 'A', 'a0']]), cross('B', 'B'), [['MinimumTrials', 11]])))
    add(D([A2, B2], nest(cross('A', 'A', [['Pin', 0, 'A', 'a0']]), cross('B', 'B'), [['MinimumTrials', 5]])))
    add(D([A2, B2, C2], nest(nest(cross('A', 'A'), cross('B', 'B')), cross('C', 'C'))))
    add(D([A2, B2, C2], nest(cross('A', 'A'), nest(cross('B', 'B'), cross('C', 'C')))))
    add(D([A2, B3, C2], nest(nest(cross('A', 'A'), cross('B', 'B')), cross('C', 'C'))))
    add(D([A2, B3, C2], nest(cross('A', 'A'), nest(cross('B', 'B'), cross('C', 'C')))))
    if tier == 'thorough':
        rnd = random.Random(seed * 104729 + 5)
        for _ in range(150):
            add(random_nest(rnd))
        add(D([A3, B2, C2], nest(nest(cross('A', 'A'), cross('B', 'B')), cross('C', 'C'))))
        add(D([A2, B2, C2, E2], nest(cross('AE', 'AE'), nest(cross('B', 'B'), cross('C', 'C')))))
        add(D([A2, B2, C2, E2], nest(nest(cross('A', 'A'), cross('BE', 'B')), cross('C', 'C'))))
        add(D([A3, B3, C2], nest(cross('A', 'A', [['Sequential', 'A']]), cross('BC', 'BC'))))
    return out


def assoc_pairs(tier):
    out = []
    combos = [(A2, B2, C2), (A2, B3, C2), (A3, B2, C2), (A2, B2, C3)]
    for fa, fb, fc in combos:
        a, b, c = cross('A', 'A'), cross('B', 'B'), cross('C', 'C')
        out.append(('nest-assoc', D([fa, fb, fc], nest(nest(a, b), c)), D([fa, fb, fc], nest(a, nest(b, c)))))
    a, b, c = cross('A', 'A'), cross('B', 'B', [['Pin', 0, 'B', 'b1']]), cross('C', 'C', [['AtMostKInARow', 1, 'C', 'c0']])
    out.append(('nest-assoc', D([A2, B2, C3], nest(nest(a, b), c)), D([A2, B2, C3], nest(a, nest(b, c)))))
    return out


def replay(data):
    if 'law' in data:
        return c24.replay(data)
    return replay_design(data)


def random_nest(rnd):
    """A seeded random Nest descriptor: outer block over A (and B), inner block over C (and E), random crossings and
    constraints on the outer block, the inner block and the Nest itself.  The reference refuses/excludes what the
    documentation does not define."""
    fa = rnd.choice([A2, A3])     # (a weighted factor of one of the two crossings is outside the reference)
    fc = rnd.choice([C2, C3])
    outer_design = ['A'] + (['B'] if rnd.random() < 0.4 else [])
    inner_design = ['C'] + (['E'] if rnd.random() < 0.4 else [])
    outer_cr = ['A'] + (['B'] if 'B' in outer_design and rnd.random() < 0.4 else [])
    inner_cr = ['C'] + (['E'] if 'E' in inner_design and rnd.random() < 0.4 else [])

    def cons(names, crossed, first, lv):
        out = []
        r = rnd.random()
        if r < 0.15:
            out.append(['MinimumTrials', rnd.randint(2, 7)])
        elif r < 0.3:
            out.append(['Pin', rnd.choice([0, 1, -1]), first, lv + str(rnd.randint(0, 1))])
        elif r < 0.4:
            out.append(['ExactlyK', rnd.randint(1, 2), first, lv + '0'])
        elif r < 0.5:
            out.append(['Sequential', first])
        elif r < 0.6 and len(names) > 1:
            out.append([rnd.choice(['AtMostKInARow', 'AtLeastKInARow']), rnd.randint(1, 2), names[1], names[1].lower() + '0'])
        elif r < 0.65:
            out.append(['Exclude', first, lv + '1'])
        return out
    oc = [c for c in cons(outer_design, outer_cr, 'A', 'a') if c[0] not in ('AtMostKInARow', 'AtLeastKInARow')]
    ic = cons(inner_design, inner_cr, 'C', 'c')
    nc = []
    r = rnd.random()
    if r < 0.15:
        nc.append(['MinimumTrials', rnd.randint(3, 11)])
    elif r < 0.3:
        nc.append([rnd.choice(['AtMostKInARow', 'ExactlyK']), rnd.randint(1, 2), 'C', 'c0'])
    elif r < 0.4:
        nc.append(['Pin', rnd.choice([0, 1, -1]), 'C', 'c1'])
    rcc = rnd.random() < 0.8
    inner = cross(inner_design, inner_cr, ic, rcc=rcc)
    if rnd.random() < 0.15:
        inner = repeat(cross(inner_design, inner_cr, [], rcc=rcc), [['MinimumTrials', rnd.randint(2, 5)]] + ic)
    return D([fa, B2, fc, E2], nest(cross(outer_design, outer_cr, oc, rcc=rcc), inner, nc))


def run(ctx):
    ctx.functions += ['cross_block.Nest', 'constraint.Sustain.apply', 'block.BlockGeometry.sustain',
                      'constraint.*.sustain_within_block', 'server.build_cnf']
    ctx.bounds = {'designs': 'outer/inner pairs with 2-3 level factors, inner Multi/Repeat, nested Nest (depth 2), '
                             'constraints on inner, on outer (Pin, ExactlyK, Sequential, MinimumTrials) and on the Nest; thorough: plus 150 seeded random nests (weighted levels, Exclude, Repeat inside, MinimumTrials on the Nest)'}
    ctx.outside += ['Nest of blocks with preamble trials', 'window factors in the outer block',
                    'run-length constraints given to the outer block (trials vs groups is undocumented)']
    ctx.assumptions += ['reference semantics vf/ref.py rule 8', 'z3/CryptoMiniSat sound']
    ctx.rule = 'one case per nest design / associativity pair; non-trivial = constructs and has sequences'
    items = [(d, ('sound', 'complete', 'trials')) for d in nest_designs(ctx.tier, ctx.seed)]
    res = pmap(ctx, check_design, items)
    ctx.extra['design_outcomes'] = {str(k): res.count(k) for k in set(res)}
    pmap(ctx, c24.check_pair, assoc_pairs(ctx.tier))
