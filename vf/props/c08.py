"""C08 Synthesis never fails internally on an accepted design.

(a) Engine B: for each design shape the integer parameters (k of the run-length constraints, Pin index, MinimumTrials,
    a level weight, window start) are SYMBOLIC; CrossHair executes the real constructor, build_backend_request(),
    combine_cnf_with_requests() and UCSolutionEnumerator(); postcondition: nothing but the constructors' documented
    ValueError/RuntimeError refusals is raised.
(b) corpus: every accepted descriptor is synthesised with IterateSATGen, RandomGen, CMSGen and UniGen (UniGen in a child
    process, because a native sampler may terminate the interpreter); any other exception, or a dead interpreter, is a
    violation.
"""
import json
import os
import subprocess
import sys

from ..common import HarnessError, pmap, stable_hash, quiet, ROOT
from ..corpus import designs
from ..designs import describe, build
from ..xhair import Case, run_cases, replay_harness
from . import c14, c25, c24

LEVEL = 'other'
STRATS = ('IterateSATGen', 'RandomGen', 'CMSGen', 'UniGen')

CHILD = r'''
import sys, json
sys.path.insert(0, %r)
import sweetpea as sp
from vf.designs import build
from vf.common import quiet
desc = json.loads(sys.stdin.read())
with quiet():
    b = build(desc)
    out = sp.synthesize_trials(b.block, 2, getattr(sp, sys.argv[1]))
print('CHILD-RETURNED', json.dumps([{str(k): len(v) for k, v in s.items()} for s in out]))
'''


def child_run(desc, strat, timeout=120):
    p = subprocess.run([sys.executable, '-W', 'ignore', '-c', CHILD % ROOT, strat], input=json.dumps(desc),
                       capture_output=True, text=True, timeout=timeout, env=dict(os.environ, PYTHONWARNINGS='ignore'))
    out = p.stdout + p.stderr
    if 'CHILD-RETURNED' in out:
        return None
    last = [l for l in out.strip().splitlines() if l.strip()][-1:] or ['']
    if 'Error' in out and 'Traceback' in out:
        return f'raised {last[0][:150]}'
    return f'interpreter ended (exit status {p.returncode}) before synthesize_trials returned: {last[0][:120]}'


def child_lengths(desc, strat, timeout=120):
    """Column lengths of the sequences a strategy returns, computed in a child process with a hard time limit (a native
    sampler can neither be interrupted by a Python signal handler nor be trusted not to end the interpreter).
    None when the child did not return."""
    try:
        p = subprocess.run([sys.executable, '-W', 'ignore', '-c', CHILD % ROOT, strat], input=json.dumps(desc),
                           capture_output=True, text=True, timeout=timeout, env=dict(os.environ, PYTHONWARNINGS='ignore'))
    except subprocess.TimeoutExpired:
        return None
    for line in (p.stdout or '').splitlines():
        if line.startswith('CHILD-RETURNED '):
            return json.loads(line[len('CHILD-RETURNED '):])
    return None


def synth(sub, desc):
    import sweetpea as sp
    key = stable_hash(desc)
    label = describe(desc)
    try:
        with quiet():
            built = build(desc)
    except Exception:
        sub.case(key, nontrivial=False)
        return 'rejected'
    sub.case(key, nontrivial=True)
    for name in STRATS:
        if name == 'UniGen':
            try:
                bad = child_run(desc, name)
            except subprocess.TimeoutExpired:
                continue
            if bad:
                kind = 'unigen-exit' if 'interpreter ended' in bad else f'UniGen:{bad.split()[1] if len(bad.split()) > 1 else "error"}'
                sub.violation(f'{kind}:{key}', f'{label}: synthesize_trials(..., UniGen) {bad}',
                              {'desc': desc, 'query': 'child', 'strategy': name})
            continue
        try:
            with quiet():
                sp.synthesize_trials(built.block, 2, getattr(sp, name))
        except Exception as e:
            import traceback
            tb = traceback.extract_tb(e.__traceback__)
            site = next((f'{os.path.basename(fr.filename)}:{fr.name}' for fr in reversed(tb) if 'sweetpea' in fr.filename),
                        '?')
            sub.violation(f'internal:{type(e).__name__}:{name}:{site}:{key}',
                          f'{label}: synthesize_trials(..., {name}) raises {type(e).__name__}: {str(e)[:100]} at {site}',
                          {'desc': desc, 'query': 'raise', 'strategy': name, 'exception': type(e).__name__})
            if name == 'RandomGen':
                return 'ok'
    # RandomGen's outcome depends on its random draws: drive the real sampler through EVERY draw sequence (choice oracle
    # in place of random.randrange, as in C04-C07) when there are few enough; an internal error on any of them means
    # some call of synthesize_trials(..., RandomGen) raises
    if not built.block.show_errors():
        from ..exhaust import enumerate_candidates, TooMany
        try:
            with quiet():
                enumerate_candidates(built.block, 4000 if sub.tier == 'thorough' else 1200)
        except TooMany:
            pass
        except HarnessError:
            raise
        except (IndexError, KeyError, ZeroDivisionError, AssertionError, TypeError, AttributeError) as e:
            import traceback
            tb = traceback.extract_tb(e.__traceback__)
            site = next((f'{os.path.basename(fr.filename)}:{fr.name}' for fr in reversed(tb) if 'sweetpea' in fr.filename), '?')
            sub.violation(f'internal:{type(e).__name__}:RandomGen-some-draw:{site}:{key}',
                          f'{label}: for some sequence of random draws RandomGen raises {type(e).__name__}: {str(e)[:100]} at {site}',
                          {'desc': desc, 'query': 'enumerate', 'exception': type(e).__name__})
    return 'ok'


def replay(data):
    import sweetpea as sp
    if data.get('query') == 'crosshair':
        return replay_harness(data)
    if data['query'] == 'child':
        return child_run(data['desc'], data['strategy']) is not None
    if data['query'] == 'enumerate':
        from ..exhaust import enumerate_candidates, TooMany
        with quiet():
            built = build(data['desc'])
        try:
            with quiet():
                enumerate_candidates(built.block, 4000)
        except TooMany:
            return False
        except Exception as e:
            return type(e).__name__ == data['exception']
        return False
    with quiet():
        built = build(data['desc'])
    try:
        with quiet():
            sp.synthesize_trials(built.block, 2, getattr(sp, data['strategy']))
    except Exception as e:
        return type(e).__name__ == data['exception']
    return False


HEADER = '''
import sweetpea as sp
from sweetpea._internal.server import build_cnf
from sweetpea._internal.sampling_strategy.random import UCSolutionEnumerator

def _conc(v, lo, hi):
    """Branch on the symbolic integer so that each path continues with a concrete value (one path per value)."""
    for c in range(lo, hi + 1):
        if v == c:
            return c
    raise AssertionError('outside the precondition')


def _compile(make):
    """Returns 'refused' when the constructor refuses with a documented exception type, else compiles."""
    try:
        block = make()
    except (ValueError, RuntimeError):
        return 'refused'
    build_cnf(block)
    if not block.show_errors():
        UCSolutionEnumerator(block)
    return 'ok'
'''


def I(s):
    return '\n'.join('    ' + l for l in s.strip('\n').splitlines())


def shapes(tier='quick'):
    out = []
    base = "A = sp.Factor('A', ['a0', 'a1']); B = sp.Factor('B', ['b0', 'b1']); C = sp.Factor('C', ['c0', 'c1'])"
    ok = I("return _ret in ('ok', 'refused')")
    for kind in ('AtMostKInARow', 'AtLeastKInARow', 'ExactlyKInARow', 'ExactlyK'):
        out.append(Case(f'k_{kind}', 'k: int',
                        I(f"{base}\nk = _conc(k, 1, 7)\nreturn _compile(lambda: sp.CrossBlock([A, B, C], [A, B], [sp.{kind}(k, (C, 'c0'))]))"),
                        I('return 1 <= k <= 7'), ok, info={'shape': f'CrossBlock + {kind}(k)'}))
        if tier == 'thorough':
          out.append(Case(f'krep_{kind}', 'k: int',
                        I(f"{base}\nk = _conc(k, 1, 6)\nreturn _compile(lambda: sp.Repeat(sp.CrossBlock([A, B, C], [A, B], [sp.{kind}(k, (C, 'c0'))]), "
                          f"[sp.MinimumTrials(7)]))"),
                        I('return 1 <= k <= 6'), ok, info={'shape': f'Repeat(CrossBlock + {kind}(k), MinimumTrials(7))'}))
    pr = 7 if tier == 'thorough' else 5     # the block has 4 trials: both ranges cover both out-of-range sides
    out.append(Case('pin', 'i: int',
                    I(f"{base}\ni = _conc(i, -{pr}, {pr})\nreturn _compile(lambda: sp.CrossBlock([A, B, C], [A, B], [sp.Pin(i, (C, 'c0'))]))"),
                    I(f'return -{pr} <= i <= {pr}'), ok, info={'shape': 'CrossBlock + Pin(i)', 'range': pr}))
    out.append(Case('mintrials', 'n: int',
                    I(f"A = sp.Factor('A', [sp.Level('a0', 2), 'a1']); B = sp.Factor('B', ['b0', 'b1'])\nn = _conc(n, 0, {pr + 2})\n"
                      "return _compile(lambda: sp.CrossBlock([A, B], [A], [sp.MinimumTrials(n)]))"),
                    I(f'return 0 <= n <= {pr + 2}'), ok, info={'shape': 'weighted crossed level + MinimumTrials(n)', 'max': pr + 2}))
    out.append(Case('window', 'st: int',
                    I("A = sp.Factor('A', ['a0', 'a1']); B = sp.Factor('B', ['b0', 'b1'])\nst = _conc(st, 0, 4)\n"
                      "W = sp.Factor('W', [sp.DerivedLevel('w0', sp.Window(lambda a: a[0] == 'a0', [A], 2, 1, st)), sp.ElseLevel('w1')])\n"
                      "return _compile(lambda: sp.CrossBlock([A, B, W], [A, B], [sp.AtMostKInARow(2, (W, 'w0'))]))"),
                    I('return 0 <= st <= 4'), ok, info={'shape': 'Window(width 2, start st) + AtMostKInARow on it'}))
    return out


def run(ctx):
    ctx.functions += ['main.synthesize_trials', 'block.build_backend_request', 'constraint.*.apply',
                      'constraint._KInARow._build_variable_sublistss', 'sampling_strategy.random.UCSolutionEnumerator',
                      'sampling_strategy.*.sample', 'tools.unigen.call_unigen_python']
    ctx.bounds = {'symbolic': 'k in 1..7 (CrossBlock) / 1..6 (Repeat to 7 trials) for each run-length constraint, Pin index -5..5 (thorough -7..7), '
                              'MinimumTrials 0..7 (thorough 0..9) with a weighted level, window start 0..4', 'corpus': 'fixed corpus + layout/nest designs + seeded random descriptors'}
    ctx.outside += ['SMGen (C29)', 'designs outside the generator space', 'RandomGen runs longer than the per-design time limit']
    ctx.stubs += ['Factor/Level __hash__ = id>>4 under CrossHair']
    ctx.assumptions += ['documented refusals are ValueError/RuntimeError from the constructors']
    ctx.rule = 'one case per shape (symbolic) / descriptor (corpus); non-trivial = constructor accepts'
    ctx.explanation = ('Symbolic integer parameters through the real constructor and compilation under CrossHair; '
                       'concrete synthesis of every corpus design with the four strategies (UniGen in a child process).')
    import os as _os
    _os.environ.setdefault('VERIF_ITEM_TIMEOUT', '300' if ctx.tier == 'thorough' else '30')
    ds = designs(ctx.tier, ctx.seed) + c14.extra_designs() + c25.nest_designs(ctx.tier, ctx.seed)
    res = pmap(ctx, synth, ds)
    ctx.extra['design_outcomes'] = {str(k): res.count(k) for k in set(res)}
    run_cases(ctx, HEADER, shapes(ctx.tier), timeout=600 if ctx.tier == 'thorough' else 110, path_timeout=40, module_tag='c08',
              keyfn=lambda c, kw: f"symbolic:{c.info['shape']}")
