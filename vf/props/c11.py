"""C11 Formula-to-CNF conversions preserve meaning.

For each formula f (enumerated exhaustively up to a node bound, plus seeded random larger ones with shared
sub-formulas) the three real conversions are run and their clause lists (through the real cnf_to_json) are compared
with an independent z3 translation of f, all variables symbolic:
  tseitin    CNF & not f unsat;  f & not exists new. CNF unsat (closure / z3 forall);  CNF & CNF' & new != new' unsat;
             every non-original variable lies in [next, returned_next)
  naive      CNF xor f unsat;  no new variable;  returned_next == next
  switching  CNF & not f unsat;  f & forall new. not CNF unsat;  new variables in [next, returned_next)
"""
import random

import z3

from ..common import HarnessError, pmap
from ..sat import Z, z3_check, definability_closure, not_exists_aux_z3, uniqueness_query

LEVEL = 'translation_validation'
LITS = (1, 2, -1, 3)


# ---- formulas as plain tuples (picklable); converted to the library's namedtuples in the worker ----------------------

def lib(f):
    from sweetpea._internal.logic import And, Or, Not, If, Iff
    if isinstance(f, int):
        return f
    op = f[0]
    if op == 'not':
        return Not(lib(f[1]))
    if op == 'and':
        return And([lib(c) for c in f[1]])
    if op == 'or':
        return Or([lib(c) for c in f[1]])
    if op == 'if':
        return If(lib(f[1]), lib(f[2]))
    if op == 'iff':
        return Iff(lib(f[1]), lib(f[2]))
    raise ValueError(f)


def to_z3(f, z):
    if isinstance(f, int):
        return z.lit(f)
    op = f[0]
    if op == 'not':
        return z3.Not(to_z3(f[1], z))
    if op == 'and':
        return z3.And([to_z3(c, z) for c in f[1]]) if f[1] else z3.BoolVal(True)
    if op == 'or':
        return z3.Or([to_z3(c, z) for c in f[1]]) if f[1] else z3.BoolVal(False)
    if op == 'if':
        return z3.Implies(to_z3(f[1], z), to_z3(f[2], z))
    if op == 'iff':
        return to_z3(f[1], z) == to_z3(f[2], z)
    raise ValueError(f)


def fvars(f, acc=None):
    acc = set() if acc is None else acc
    if isinstance(f, int):
        acc.add(abs(f))
    elif f[0] == 'not':
        fvars(f[1], acc)
    elif f[0] in ('and', 'or'):
        for c in f[1]:
            fvars(c, acc)
    else:
        fvars(f[1], acc)
        fvars(f[2], acc)
    return acc


def py_eval(f, asg):
    if isinstance(f, int):
        return asg[abs(f)] == (f > 0)
    op = f[0]
    if op == 'not':
        return not py_eval(f[1], asg)
    if op == 'and':
        return all(py_eval(c, asg) for c in f[1])
    if op == 'or':
        return any(py_eval(c, asg) for c in f[1])
    if op == 'if':
        return (not py_eval(f[1], asg)) or py_eval(f[2], asg)
    return py_eval(f[1], asg) == py_eval(f[2], asg)


_memo = {}


def by_size(n):
    """All formulas with exactly n nodes."""
    if n in _memo:
        return _memo[n]
    if n == 1:
        out = list(LITS) + [('and', ()), ('or', ())]
    else:
        out = []
        for g in by_size(n - 1):
            out.append(('not', g))
        for op in ('and', 'or'):
            for g in by_size(n - 1):
                out.append((op, (g,)))
            for a in range(1, n - 1):
                b = n - 1 - a
                if b >= 1:
                    for g in by_size(a):
                        for h in by_size(b):
                            out.append((op, (g, h)))
            for a in range(1, n - 2):
                for b in range(1, n - 1 - a):
                    c = n - 1 - a - b
                    if c >= 1:
                        for g in by_size(a):
                            for h in by_size(b):
                                for k in by_size(c):
                                    out.append((op, (g, h, k)))
        for op in ('if', 'iff'):
            for a in range(1, n - 1):
                b = n - 1 - a
                for g in by_size(a):
                    for h in by_size(b):
                        out.append((op, g, h))
    _memo[n] = out
    return out


def random_formula(rnd, nodes, pool):
    """Random formula of roughly `nodes` nodes over variables 1..4; `pool` holds reusable sub-formulas."""
    if nodes <= 1 or (pool and rnd.random() < 0.15):
        if pool and rnd.random() < 0.4:
            return rnd.choice(pool)
        v = rnd.randint(1, 4)
        return v if rnd.random() < 0.6 else -v
    op = rnd.choice(['not', 'and', 'or', 'and', 'or', 'if', 'iff'])
    if op == 'not':
        f = ('not', random_formula(rnd, nodes - 1, pool))
    elif op in ('and', 'or'):
        k = rnd.choice([0, 1, 2, 2, 3, 3])
        share = max(1, (nodes - 1) // max(k, 1))
        f = (op, tuple(random_formula(rnd, share, pool) for _ in range(k)))
    else:
        f = (op, random_formula(rnd, (nodes - 1) // 2, pool), random_formula(rnd, (nodes - 1) // 2, pool))
    if rnd.random() < 0.3:
        pool.append(f)
    return f


# ---- one formula ----------------------------------------------------------------------------------------------------

CONVERSIONS = ('tseitin', 'naive', 'switching')


def convert(which, f, nxt):
    from sweetpea._internal import logic
    fn = {'tseitin': logic.to_cnf_tseitin, 'naive': logic.to_cnf_naive, 'switching': logic.to_cnf_switching}[which]
    cnf, ret = fn(lib(f), nxt)
    return logic.cnf_to_json([cnf]), ret


def replay(data):
    """Concrete confirmation against the real conversion: truth-table comparison at the recorded assignment,
    or the recorded exception."""
    import itertools
    f = _untuple(data['formula'])
    which, nxt = data['conversion'], data['next']
    try:
        clauses, ret = convert(which, f, nxt)
    except Exception as e:
        return data['query'] == 'exception' and type(e).__name__ == data.get('exception')
    if data['query'] == 'exception':
        return False
    orig = sorted(fvars(f))
    allv = sorted({abs(l) for c in clauses for l in c} | set(orig))
    new = [v for v in allv if v not in orig]
    if data['query'] == 'range':
        return any(not (nxt <= v < ret) for v in new) or (which == 'naive' and (new or ret != nxt))
    x = {int(k): v for k, v in data['assignment'].items()}
    ext = []
    for bits in itertools.product([False, True], repeat=len(new)):
        asg = dict(x)
        asg.update(dict(zip(new, bits)))
        if all(any(asg[abs(l)] == (l > 0) for l in c) for c in clauses):
            ext.append(bits)
    want = py_eval(f, x)
    if data['query'] == 'soundness':
        return bool(ext) and not want
    if data['query'] == 'completeness':
        return want and not ext
    if data['query'] == 'uniqueness':
        return len(ext) > 1
    return False


def _untuple(f):
    if isinstance(f, int):
        return f
    if f[0] in ('and', 'or'):
        return (f[0], tuple(_untuple(c) for c in f[1]))
    return tuple([f[0]] + [_untuple(c) for c in f[1:]])


def check_formula(sub, item):
    f, nxt = item
    orig = sorted(fvars(f))
    sub.case(repr(f), nontrivial=bool(orig))
    for which in CONVERSIONS:
        base = {'formula': f, 'conversion': which, 'next': nxt}
        key = f'{which}:{f!r}'
        try:
            clauses, ret = convert(which, f, nxt)
        except Exception as e:
            data = dict(base, query='exception', exception=type(e).__name__)
            if not replay(data):
                raise HarnessError(f'{key}: exception did not reproduce')
            sub.violation(f'{which}:exception:{type(e).__name__}:{f!r}',
                          f'to_cnf_{which}({f!r}) raises {type(e).__name__}: {e}', data)
            continue
        sub.programs += 1
        z = Z()
        ref = to_z3(f, z)
        F = z.cnf(clauses)
        if any(len(c) == 0 for c in clauses):
            F = [z3.BoolVal(False)]
        allv = sorted({abs(l) for c in clauses for l in c} | set(orig))
        new = [v for v in allv if v not in orig]
        found = []
        if any(not (nxt <= v < ret) for v in new) or (which == 'naive' and (new or ret != nxt)):
            found.append(('range', {}))
        r, m = z3_check(F + [z3.Not(ref)], sub)
        if r == 'sat':
            found.append(('soundness', {v: z3.is_true(m.eval(z.var(v), model_completion=True)) for v in orig}))
        elif r != 'unsat':
            sub.note_inconclusive(f'{key} soundness {r}')
        # completeness
        if not new:
            r, m = z3_check([ref, z3.Not(z3.And(F))], sub)
        else:
            qf = z3.ForAll([z.var(v) for v in new], z3.Not(z3.And(F)))
            r, m = z3_check([ref, qf], sub, timeout_ms=30000)
            if which == 'tseitin' and not any(len(c) == 0 for c in clauses):
                # closure form as the primary decision for Tseitin (also exercises the engine used on designs)
                sup = max(orig) if orig else 0
                clo = definability_closure(clauses, max(sup, nxt - 1))
                if clo.status == 'ok':
                    ne = not_exists_aux_z3(clo, z)
                    if ne is not None:
                        r2, m2 = z3_check(z.cnf(clo.d_clauses) + [ref, ne], sub)
                        if r in ('sat', 'unsat') and r2 in ('sat', 'unsat') and r != r2:
                            raise HarnessError(f'{key}: closure ({r2}) and z3 forall ({r}) disagree')
        if r == 'sat':
            found.append(('completeness', {v: z3.is_true(m.eval(z.var(v), model_completion=True)) for v in orig}))
        elif r != 'unsat':
            sub.note_inconclusive(f'{key} completeness {r}')
        if which == 'tseitin' and new:
            # uniqueness of the new variables: protect every variable below `nxt`
            u = uniqueness_query(clauses, nxt - 1, sub) if not any(len(c) == 0 for c in clauses) else None
            if u == 'unknown':
                sub.note_inconclusive(f'{key} uniqueness unknown')
            elif u is not None:
                found.append(('uniqueness', {v: u[0][v] for v in orig}))
        for query, asg in found:
            data = dict(base, query=query, assignment={str(k): v for k, v in asg.items()})
            if not replay(data):
                raise HarnessError(f'{key} {query}: counterexample did not reproduce: {data}')
            sub.violation(f'{which}:{query}:{f!r}', f'to_cnf_{which}({f!r}, {nxt}) fails {query} at {asg}', data)


def vacuity(ctx):
    z = Z()
    f = ('iff', 1, ('and', (2, 3)))
    clauses, ret = convert('tseitin', f, 5)
    wrong = to_z3(('iff', 1, ('or', (2, 3))), z)
    r, _ = z3_check(z.cnf(clauses) + [z3.Not(wrong)], ctx)
    if r != 'sat':
        raise HarnessError('vacuity: soundness query cannot refute a wrong reference')
    new = sorted({abs(l) for c in clauses for l in c} - {1, 2, 3})
    r, _ = z3_check([wrong, z3.ForAll([z.var(v) for v in new], z3.Not(z3.And(z.cnf(clauses))))], ctx)
    if r != 'sat':
        raise HarnessError('vacuity: completeness query cannot refute a wrong reference')
    victim = new[0]
    freed = [c for c in clauses if all(abs(l) != victim for l in c)] + [[victim, -victim]]
    if uniqueness_query(freed, 4, ctx) is None:
        raise HarnessError('vacuity: uniqueness query does not see a freed variable')


def run(ctx):
    thorough = ctx.tier == 'thorough'
    rnd = random.Random(ctx.seed)
    ctx.functions += ['logic.to_cnf_tseitin', 'logic.to_cnf_naive', 'logic.to_cnf_switching', 'logic.cnf_to_json',
                      'logic.__tseitin_rep', 'logic.__eliminate_iff', 'logic.__apply_demorgan',
                      'logic.__distribute_ors_naive', 'logic.__distribute_ors_switching']
    exh = 5 if thorough else 4
    nsample = 20000 if thorough else 2500
    nrand = 2000 if thorough else 400
    ctx.bounds = {'exhaustive_nodes': f'<= {exh} over literals {LITS}, And/Or arity 0..3, Not, If, Iff',
                  'sampled': f'{nsample} formulas of {exh + 1}..{exh + 2} nodes (VERIF_SEED)',
                  'random_with_sharing': f'{nrand} formulas of <= 14 nodes over variables 1..4',
                  'next_variable': '5 (exhaustive part), 5..9 (random part)',
                  'structured': 'And/Or of two binary connectives (If, Iff, And, Or) over literals 1..3 in every operand order'}
    ctx.outside += ['formulas beyond the node bound', 'more than 4 original variables', 'And/Or arity > 3']
    ctx.assumptions += ['z3 is sound; reference semantics of And([])=true, Or([])=false, If=implication, Iff=equivalence']
    ctx.rule = ('formulas enumerated by node count then seeded samples; non-trivial = mentions at least one variable; '
                'each formula is pushed through all three conversions')
    vacuity(ctx)
    items = []
    for n in range(1, exh + 1):
        items += [(f, 5) for f in by_size(n)]
    n_exh = len(items)
    for n in (exh + 1, exh + 2):
        # sample without materialising the whole level: build from random children
        for _ in range(nsample // 2):
            items.append((_sample_size(rnd, n), 5))
    for _ in range(nrand):
        pool = []
        items.append((random_formula(rnd, rnd.randint(6, 14), pool), rnd.randint(5, 9)))
    # structured family: two binary connectives over the same small operands in every order (the Tseitin cache is
    # keyed by the printed sub-formula, so operand order and connective must both matter)
    ops = ('if', 'iff', 'and', 'or')
    lits = (1, 2, 3)

    def mk(op, a, b):
        return (op, (a, b)) if op in ('and', 'or') else (op, a, b)
    fam = []
    for o1 in ops:
        for o2 in ops:
            for a in lits:
                for b in lits:
                    for c in lits:
                        for d in lits:
                            if (o1, a, b) < (o2, c, d) and ({a, b} == {c, d} or rnd.random() < 0.15):
                                for top in ('and', 'or'):
                                    fam.append(((top, (mk(o1, a, b), mk(o2, c, d))), 5))
    fam += [((('not', f[0]), 5)) for f in fam[::7]]
    items += fam
    ctx.extra['formulas_structured'] = len(fam)
    ctx.extra['formulas_exhaustive'] = n_exh
    ctx.extra['formulas_total'] = len(items)
    ctx.sample({'formula': repr(items[min(700, len(items) - 1)][0]), 'conversions': list(CONVERSIONS)})
    ctx.sample({'formula': repr(items[-1][0]), 'next': items[-1][1]})
    chunks = [items[i:i + 50] for i in range(0, len(items), 50)]
    pmap(ctx, _chunk, chunks)
    ctx.exhaustive = False


def _chunk(sub, chunk):
    for item in chunk:
        check_formula(sub, item)


def _sample_size(rnd, n):
    """Uniform-ish random formula with exactly n nodes (n >= 1)."""
    if n == 1:
        return rnd.choice(by_size(1))
    kind = rnd.choice(['not', 'and', 'or', 'and', 'or', 'if', 'iff'])
    if kind == 'not':
        return ('not', _sample_size(rnd, n - 1))
    if kind in ('if', 'iff'):
        if n < 3:
            return ('not', _sample_size(rnd, n - 1))
        a = rnd.randint(1, n - 2)
        return (kind, _sample_size(rnd, a), _sample_size(rnd, n - 1 - a))
    k = rnd.randint(1, min(3, n - 1))
    cuts = sorted(rnd.sample(range(1, n - 1), k - 1)) if k > 1 else []
    sizes = [b - a for a, b in zip([0] + cuts, cuts + [n - 1])]
    return (kind, tuple(_sample_size(rnd, s) for s in sizes))
