"""C27 Solver input and output text is faithful.

(a) Engine B: the STRUCTURE of a CNF (number of clauses, clause lengths, signs, which variable of a fixed set with a
    gap) and the support size are symbolic; literal magnitudes are concrete per path (Var.__int__ of a symbolic value is
    a CrossHair proxy intolerance).  The text of as_unigen_string / save_cnf is read by an independent 15-line DIMACS
    reader and by the library's parse_cnf_file (through an in-memory open): same clauses, header clause count exact,
    header variable count >= distinct variables, `c ind` lines list exactly 1..support in chunks of at most 10.
(b) Engine A: the clause appended by the real sample_non_uniform.update_file, for every sign pattern of a solution over
    <= 5 (thorough 8) support variables and k = 1..3 successive updates, is decided by z3 to be equivalent to the negated
    cube of that solution; the header clause count grows by one; earlier lines are unchanged.
(c) parsed solver output: cryptominisat_solve / build_solution / the CMSGen and UniGen python paths are run on formulas
    whose models are known (all variables forced by unit clauses, every sign pattern up to 5 variables) and must report
    exactly the forced assignment on the sampling set (concrete runs; labelled so).
"""
import itertools
import os
from pathlib import Path

import z3

from ..common import HarnessError, pmap, quiet
from ..sat import Z, z3_check
from ..xhair import Case, run_cases, replay_harness

LEVEL = 'other'

HEADER = '''
import io
from sweetpea._internal.core.cnf import CNF, Var, Clause
from sweetpea._internal.core.generate.utility import save_cnf
import sweetpea._internal.core.generate.tools.unigen as _ug
from pathlib import Path

VARS = [1, 2, 3, 5, 12]

def _conc(v, lo, hi):
    for c in range(lo, hi + 1):
        if v == c:
            return c
    raise AssertionError('outside the precondition')

def _read_dimacs(text):
    header, ind, clauses = None, [], []
    chunks = []
    for line in text.split('\\n'):
        line = line.strip()
        if not line:
            continue
        if line.startswith('c ind'):
            toks = line.split()[2:]
            if toks[-1] != '0':
                return None
            chunks.append(len(toks) - 1)
            ind += [int(t) for t in toks[:-1]]
        elif line.startswith('c'):
            continue
        elif line.startswith('p cnf'):
            if header is not None:
                return None
            header = (int(line.split()[2]), int(line.split()[3]))
        else:
            toks = [int(t) for t in line.split()]
            if toks[-1] != 0 or 0 in toks[:-1]:
                return None
            clauses.append(toks[:-1])
    return header, ind, clauses, chunks

class _Mem:
    files = {}
class _PathStub:
    def __init__(self, name):
        self.name = name
    def write_text(self, text):
        _Mem.files[self.name] = text
    def read_text(self):
        return _Mem.files[self.name]
def _mem_open(name, mode='r', *a, **k):
    return io.StringIO(_Mem.files[getattr(name, 'name', name)])

def _text_case(n_clauses, lens, signs, picks, support):
    clauses = []
    k = 0
    for ci in range(n_clauses):
        lits = []
        for li in range(lens[ci]):
            v = VARS[picks[k]]
            lits.append(v if signs[k] else -v)
            k += 1
        clauses.append(lits)
    cnf = CNF(clauses)
    p = _PathStub('f.cnf')
    save_cnf(p, cnf, support=support)
    text = p.read_text()
    _ug.open = _mem_open
    try:
        parsed = _ug.parse_cnf_file(p)
    finally:
        del _ug.open
    return text, clauses, parsed

def _text_ok(ret, support):
    text, clauses, parsed = ret
    r = _read_dimacs(text)
    if r is None:
        return False
    header, ind, got, chunks = r
    distinct = len({abs(l) for c in clauses for l in c})
    if header is None or header[1] != len(clauses) or header[0] < distinct:
        return False
    if sorted(map(tuple, got)) != sorted(map(tuple, clauses)):
        return False
    if ind != list(range(1, support + 1)) or any(c > 10 or c < 1 for c in chunks):
        return False
    pc, pset, pn = parsed
    return sorted(map(tuple, pc)) == sorted(map(tuple, clauses)) and pset == list(range(1, support + 1)) and pn == header[0]
'''


def I(s):
    return '\n'.join('    ' + l for l in s.strip('\n').splitlines())


def cases(tier):
    out = []
    # structure: up to 2 clauses of up to 2 literals; signs and variable picks symbolic, shape and support per case
    for (n_clauses, l0, l1) in ((1, 1, 1), (1, 2, 1), (2, 1, 2), (2, 2, 2)):
        for support in (0, 11):
            k = l0 + (l1 if n_clauses == 2 else 0)
            sig = ', '.join([f's{i}: bool' for i in range(k)] + [f'p{i}: int' for i in range(k)])
            pre = 'return ' + ' and '.join(f'0 <= p{i} <= 2' for i in range(k))
            impl = (f"picks = [{', '.join(f'[0, 3, 4][_conc(p{i}, 0, 2)]' for i in range(k))}] + [0] * 4\n"
                    f"signs = [{', '.join(f'bool(s{i})' for i in range(k))}] + [True] * 4\n"
                    f"return _text_case({n_clauses}, [{l0}, {l1}], signs, picks, {support})")
            out.append(Case(f'dimacs_{n_clauses}_{l0}_{l1}_sup{support}', sig, I(impl), I(pre),
                            I(f'return _text_ok(_ret, {support})'),
                            info={'clauses': n_clauses, 'lengths': [l0, l1][:n_clauses], 'variables': [1, 5, 12],
                                  'support': support}))
    # support only (one fixed CNF): all support sizes cheaply
    sig = 'support: int'
    hi = 60 if tier == 'thorough' else 45
    out.append(Case('sampling_set', sig, I(f'support = _conc(support, 0, {hi})\nreturn _text_case(2, [2, 1], [True, False, True, True], [0, 1, 4, 0], support)'),
                    I(f'return 0 <= support <= {hi}'), I('return _text_ok(_ret, support)'),
                    info={'support': f'0..{hi}', 'cnf': '[[1,-2],[12]]'}))
    return out


# ---- (b) blocking clause -------------------------------------------------------------------------------------------------

def blocking(sub, sol):
    from sweetpea._internal.core.generate.sample_non_uniform import update_file
    name = Path(f'c27-{os.getpid()}.cnf')
    base = ['p cnf 9 2', 'c ind 1 2 3 0', '1 -2 0', '9 3 0']
    name.write_text('\n'.join(base))
    sols = [sol, [-l for l in sol], sol[:1] + [-l for l in sol[1:]]]
    z = Z()
    sub.case(f'blocking:{sol}')
    for k, s in enumerate(sols[:3], 1):
        before = name.read_text().strip().splitlines()
        update_file(name, list(s))
        after = name.read_text().strip().splitlines()
        problems = []
        if after[0].split() != ['p', 'cnf', '9', str(2 + k)]:
            problems.append(f'header after {k} updates is {after[0]!r}')
        if after[1:len(before)] != before[1:]:
            problems.append('earlier lines changed')
        if len(after) != len(before) + 1:
            problems.append(f'{len(after) - len(before)} lines added')
        else:
            toks = [int(t) for t in after[-1].split()]
            if toks[-1] != 0:
                problems.append('added clause not terminated by 0')
            clause = z3.Or([z.lit(l) for l in toks[:-1]]) if toks[:-1] else z3.BoolVal(False)
            cube = z3.And([z.lit(l) for l in s])
            r, m = z3_check([clause == cube], sub)    # must be the negation of the cube for every assignment
            if r == 'sat':
                problems.append(f'added clause {toks[:-1]} is not equivalent to the negation of solution {s}')
            elif r != 'unsat':
                sub.note_inconclusive(f'blocking {s} {r}')
        if problems:
            sub.violation(f'blocking:{sol}', f'update_file with solution {s} (update {k}): {"; ".join(problems)}',
                          {'query': 'blocking', 'solution': sol})
            break
    name.unlink()


# ---- (c) parsed solver output -----------------------------------------------------------------------------------------------

def outputs(sub, signs):
    """A formula that forces every variable: the parsers must report exactly that assignment."""
    from sweetpea._internal.core.cnf import CNF
    from sweetpea._internal.core.generate.utility import save_cnf
    from sweetpea._internal.core.generate.tools.cryptominisat import cryptominisat_solve
    from sweetpea._internal.core.generate.sample_uniform import sample_uniform, build_solution
    n = len(signs)
    want = [(i + 1) if s else -(i + 1) for i, s in enumerate(signs)]
    cnf = CNF([[l] for l in want])
    sub.case(f'outputs:{want}')
    name = Path(f'c27o-{os.getpid()}.cnf')
    save_cnf(name, cnf, support=n)
    with quiet():
        got = cryptominisat_solve(name, False)
    name.unlink()
    data = {'query': 'outputs', 'signs': list(signs)}
    if got is None or got[:n] != want:
        sub.violation(f'cryptominisat_solve:{want}', f'cryptominisat_solve reports {got} for a formula forcing {want}', data)
        return
    for cms in (True, False):
        with quiet():
            sols = sample_uniform(2, cnf, n, n, [], use_docker=False, use_cmsgen=cms)
        for s in sols:
            if list(s.assignment)[:n] != want:
                sub.violation(f'{"cmsgen" if cms else "unigen"}:{want}', f'sample_uniform(use_cmsgen={cms}) reports '
                              f'{s.assignment} for a formula forcing {want}', dict(data, cms=cms))
                return
    sol = build_solution('v ' + ' '.join(map(str, want)) + ' 0:3')
    if list(sol.assignment) != want or sol.frequency != 3:
        sub.violation(f'build_solution:{want}', f'build_solution parses {sol} from {want}', data)


def _work(sub, item):
    if item[0] == 'B':
        blocking(sub, item[1])
    else:
        outputs(sub, item[1])


def replay(data):
    class S:
        def __init__(self): self.v = []
        def case(self, *a, **k): pass
        def q(self, *a, **k): pass
        def note_inconclusive(self, *a): pass
        def violation(self, key, what, d): self.v.append(key)
    if data.get('query') == 'crosshair':
        return replay_harness(data)
    s = S()
    if data['query'] == 'blocking':
        blocking(s, data['solution'])
    else:
        outputs(s, data['signs'])
    return bool(s.v)


def run(ctx):
    ctx.functions += ['core.cnf.CNF.__str__ / as_dimacs_string / as_unigen_string', 'core.generate.utility.save_cnf',
                      'tools.unigen.parse_cnf_file / call_cmsgen_python / call_unigen_python',
                      'tools.cryptominisat._use_pycryptosat_library / cryptominisat_solve',
                      'core.generate.sample_uniform.build_solution', 'core.generate.sample_non_uniform.update_file']
    th = ctx.tier == 'thorough'
    ctx.bounds = {'text': 'clause shapes (1),(2),(1,2),(2,2); variables from {1,5,12}; all signs; support 0 and 11; support '
                          'alone 0..45 (60)', 'blocking': f'every sign pattern over <= {8 if th else 5} support variables, 3 updates',
                  'outputs': 'every sign pattern over <= 5 forced variables through pycryptosat, pycmsgen, pyunigen'}
    ctx.outside += ['literal magnitudes other than the five listed (int(str(v)) == v is trusted)', 'empty clauses',
                    'solver binaries / docker modes']
    ctx.stubs += ['Path.write_text/read_text and open() of tools.unigen replaced by in-memory files under CrossHair',
                  'Var.__hash__ = value']
    ctx.assumptions += ['independent DIMACS reader in the harness header; z3 sound']
    ctx.rule = 'text: structure symbolic; blocking/outputs: one case per sign pattern'
    ctx.explanation = ('(a) CrossHair over the structure space of small CNFs and all support sizes through the real '
                       'serialiser and parser; (b) z3 equivalence of the real blocking clause with the negated cube; '
                       '(c) concrete solver runs on formulas with a forced assignment.')
    items = []
    for n in range(1, (8 if th else 5) + 1):
        for signs in itertools.product([1, -1], repeat=n):
            items.append(('B', [s * (i + 1) for i, s in enumerate(signs)]))
    for n in range(1, 6):
        for signs in itertools.product([True, False], repeat=n):
            items.append(('O', list(signs)))
    pmap(ctx, _work, items)
    run_cases(ctx, HEADER, cases(ctx.tier), timeout=900 if th else 240, path_timeout=30, module_tag='c27',
              keyfn=lambda c, kw: f'text:{c.name}')
