"""C17 The mismatch checker accepts exactly the valid sequences.

Per design the reference R (vf/ref.py) is used as a GENERATOR through z3: (i) models of R (valid sequences, pairwise
different), (ii) for every conjunct group g of R (crossing i, each constraint, derivations) a model of
structure & not g & (all other groups)  -- an invalid sequence that violates exactly that requirement, (iii) every
single-cell change of two valid sequences (derived columns both left stale and recomputed).  The real
sample_mismatch_experiment is run on each; its verdict (no mismatch / some mismatch) must equal validity, where validity
of (iii) is judged by the concrete validator (same rule set as R).  This is solver-generated testing of the real checker,
not a for-all verdict; it is labelled so in the evidence.
"""
import z3

from ..common import HarnessError, pmap, stable_hash, quiet
from ..corpus import designs
from ..designs import describe
from ..enginea import compile_design, reference, Rejected, model_x, x_to_names
from ..ref import Outside, validate
from ..sat import z3_check
from . import c25

LEVEL = 'other'


def group_of(label):
    head = label.split('@')[0].split('#')[0]
    if head.startswith('cross'):
        return head.split(':')[0]
    if head.startswith(('onehot', 'hidden', 'sustain')):
        return 'structure'
    if head.startswith('derive'):
        return 'derive:' + head.split(':')[1]
    return head


def checker(block, seq):
    import sweetpea as sp
    with quiet():
        return sp.sample_mismatch_experiment(block, {k: list(v) for k, v in seq.items()})


def check(sub, desc):
    key = stable_hash(desc)
    label = describe(desc)
    try:
        comp = compile_design(desc)
        if comp.sem_error or comp.sem is None or comp.sem.status != 'ok':
            return 'skip'
        R, problems = reference(comp)
    except (Outside, Rejected, IndexError, KeyError, AssertionError):
        return 'skip'
    if R is None:
        return 'skip'
    z = comp.z
    groups = {}
    for lab, e in R:
        groups.setdefault(group_of(lab), []).append(e)
    xs = [z.var(v) for v in range(1, comp.support + 1)]
    s = z3.Solver()
    for _, e in R:
        s.add(e)
    valid = []
    for _ in range(4):
        if s.check() != z3.sat:
            break
        m = s.model()
        x = model_x(comp, m)
        valid.append(x_to_names(comp, x))
        s.add(z3.Or([v != m.eval(v, model_completion=True) for v in xs]))
    sub.q('sat', 0, len(valid))
    if not valid:
        return 'no-valid'
    sub.case(key, nontrivial=True)
    tested = 0

    def judge(seq, expect_valid, how):
        nonlocal tested
        tested += 1
        try:
            res = checker(comp.block, seq)
        except Exception as e:
            sub.violation(f'exception:{type(e).__name__}:{key}', f'{label}: sample_mismatch_experiment raises '
                          f'{type(e).__name__}: {str(e)[:80]} on {seq}', {'desc': desc, 'sequence': seq, 'valid': expect_valid})
            return False
        if (res == {}) != expect_valid:
            kind = 'false-alarm' if expect_valid else 'accepted-invalid'
            sub.violation(f'{kind}:{how}:{key}', f'{label}: sequence {seq} is {"valid" if expect_valid else "invalid"} '
                          f'({how}) but sample_mismatch_experiment returns {res}',
                          {'desc': desc, 'sequence': seq, 'valid': expect_valid})
            return False
        return True
    for seq in valid:
        ok, bad = validate(desc, seq)
        if not ok:
            raise HarnessError(f'{label}: model of R rejected by the concrete validator: {bad[:3]}')
        if not judge(seq, True, 'model-of-R'):
            return 'violation'
    # (ii) violate exactly one requirement
    for g, es in groups.items():
        if g == 'structure':
            continue
        others = [e for h, hs in groups.items() if h != g for e in hs]
        r, m = z3_check(others + [z3.Not(z3.And(es))], sub, timeout_ms=30000)
        if r != 'sat':
            continue
        seq = x_to_names(comp, model_x(comp, m))
        ok, bad = validate(desc, seq)
        if ok:
            continue   # e.g. an implied derived column was recomputed: the sequence is valid after all
        if not judge(seq, False, f'violates-only:{g.split(":")[0]}'):
            return 'violation'
    # (iii) single-cell changes
    sem = comp.sem
    for base in valid[:2]:
        for f in sem.design:
            rf = sem.factors[f]
            if rf.derived:
                continue
            for t in range(sem.T):
                for ln in dict.fromkeys(rf.level_names):
                    if ln == base[f][t]:
                        continue
                    stale = {k: list(v) for k, v in base.items()}
                    stale[f][t] = ln
                    ok, _ = validate(desc, stale)
                    if not judge(stale, ok, 'single-cell-stale'):
                        return 'violation'
                    fresh = _recompute(comp, stale)
                    if fresh != stale:
                        ok, _ = validate(desc, fresh)
                        if not judge(fresh, ok, 'single-cell-recomputed'):
                            return 'violation'
    sub.extra['sequences_judged'] = sub.extra.get('sequences_judged', 0) + tested
    sub.sample({'design': label, 'sequences_judged': tested}, limit=4)
    return 'ok'


def _recompute(comp, seq):
    """Derived columns recomputed from the basic ones (reference derivation tables)."""
    from ..ref import Cells
    sem = comp.sem
    out = {k: list(v) for k, v in seq.items()}
    order = [f for f in sem.design if sem.factors[f].derived]
    for f in order:
        out[f] = [''] * sem.T

    def var_of(t, fname, slot):
        rf = sem.factors[fname]
        if out[fname][t] == '':
            return None
        return z3.BoolVal(out[fname][t] == rf.slot_name(slot))
    for _ in range(len(order) + 1):
        cells = Cells(sem, var_of)
        for f in order:
            rf = sem.factors[f]
            for t in range(sem.T):
                if cells.applies(f, t) and out[f][t] == '':
                    try:
                        for s in range(len(rf.slots)):
                            if z3.is_true(z3.simplify(cells.derive(f, t, s))):
                                out[f][t] = rf.slot_name(s)
                    except Exception:
                        pass
    return out


def replay(data):
    if data.get('query') == 'crosshair':
        from ..xhair import replay_harness
        return replay_harness(data)
    comp = compile_design(data['desc'], need_ref=False)
    try:
        res = checker(comp.block, data['sequence'])
    except Exception:
        return True
    return (res == {}) != data['valid']


def run(ctx):
    ctx.functions += ['main.sample_mismatch_experiment', 'cross_block.sample_mismatch_factors / _constraints / _crossing',
                      'constraint.*.potential_sample_conforms', 'check_mismatch.combinations_mismatched_weights',
                      'primitive.DerivedFactor.test_trial / _trial_arguments', 'sample_conversion.*']
    ctx.bounds = {'designs': 'fixed + RandomGen corpus + nest designs + seeded random descriptors',
                  'inputs': '<=4 models of R; one targeted invalid model per requirement group; all single-cell changes of 2 valid sequences'}
    ctx.outside += ['sequences further than one cell / one requirement away from valid', 'designs outside the generator space']
    ctx.assumptions += ['reference semantics vf/ref.py is the oracle for validity']
    ctx.rule = 'one case per descriptor with at least one valid sequence'
    ctx.explanation = ('Solver-GENERATED testing: z3 produces valid sequences and sequences violating exactly one '
                       'requirement of the reference; the real checker is executed on them and on all single-cell '
                       'perturbations. The verdict is per tested sequence, not for all sequences.')
    import os
    os.environ.setdefault('VERIF_ITEM_TIMEOUT', '600' if ctx.tier == 'thorough' else '120')
    ds = designs(ctx.tier, ctx.seed) + c25.nest_designs(ctx.tier, ctx.seed)
    res = pmap(ctx, check, ds)
    ctx.extra['design_outcomes'] = {str(k): res.count(k) for k in set(res)}
    from .. import conform
    from ..xhair import run_cases
    run_cases(ctx, conform.HEADER, conform.cases(ctx.tier), timeout=600 if ctx.tier == 'thorough' else 150, path_timeout=30,
              module_tag='conform', keyfn=lambda c, kw: f'conform:{c.name}')
