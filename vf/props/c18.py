"""C18 Reusing factor and constraint objects across blocks does not change meaning.

A scenario is a set of 2-3 blocks that share factor objects, constraint objects and (for Repeat/Merge/Nest) block
objects.  It is built in every admissible construction order; after ALL blocks exist, each block's real compiled formula
is compared with the formula of the same block built alone from fresh objects: equal trial counts and projection
inclusion in both directions (SMT, closure form, variables matched by (trial, factor name, level position)).  The real
mismatch checker is run on solver-generated sequences of the fresh block and on single-cell changes; verdicts of the
shared and the fresh block must coincide.  Histories are enumerated (<= 3 blocks, all orders); the for-all-sequences
part is the solver's.
"""
import copy
import itertools

from ..common import HarnessError, pmap, stable_hash, quiet
from ..corpus import A2, A3, B2, B3, C2, C3, AW, CW, TRA, cross, multi, repeat, merge, nest, within, D
from ..designs import (Built, build_factors, build_constraint, describe, compiled_clauses, variable_table)
from ..enginea import compile_design, inclusion, Rejected, Comp, closure_of, lib_sat_with_units, decode_model
from ..sat import Z, Incremental

LEVEL = 'translation_validation'


def scenarios(tier):
    S = []
    # the same run-length / Pin / ExactlyK constraint object in blocks of different length
    for cid, c in (('atmost', ['AtMostKInARow', 1, 'A', 'a0']), ('atleast', ['AtLeastKInARow', 2, 'A', 'a0']),
                   ('pin', ['Pin', -1, 'A', 'a1']), ('exactlyk', ['ExactlyK', 2, 'C', 'c0']),
                   ('exactlyrow', ['ExactlyKInARow', 2, 'A', 'a1'])):
        S.append({'name': f'constraint-in-two-lengths:{cid}', 'factors': [A2, B2, C2], 'constraints': {'c': c},
                  'blocks': {'short': cross('ABC', 'AB', ['@c']), 'long': cross('ABC', 'ABC', ['@c'])}})
        S.append({'name': f'constraint-in-block-and-repeat:{cid}', 'factors': [A2, B2, C2], 'constraints': {'c': c},
                  'blocks': {'base': cross('ABC', 'AB', ['@c']), 'rep': repeat('@base', [['MinimumTrials', 8]]),
                             'other': cross('ABC', 'A', ['@c', ['MinimumTrials', 4]])}})
    # MinimumTrials object of an outer block nested twice
    S.append({'name': 'outer-nested-twice', 'factors': [A2, B2, C3], 'constraints': {'m': ['MinimumTrials', 4]},
              'blocks': {'outer': cross('A', 'A', ['@m']), 'n1': nest('@outer', cross('B', 'B')),
                         'n2': nest('@outer', cross('C', 'C'))}})
    S.append({'name': 'outer-constraint-nested-and-plain', 'factors': [A2, B2], 'constraints': {'k': ['ExactlyK', 2, 'A', 'a0'], 'm': ['MinimumTrials', 4]},
              'blocks': {'outer': cross('A', 'A', ['@m', '@k']), 'n1': nest('@outer', cross('B', 'B')),
                         'plain': cross('AB', 'A', ['@m', '@k'])}})
    # Merge without the optional constraints argument, twice
    S.append({'name': 'merge-default-twice', 'factors': [A2, B2, C2], 'constraints': {'e': ['AtMostKInARow', 1, 'B', 'b0']},
              'blocks': {'x': cross('AB', 'A', ['@e']), 'y': cross('BC', 'C'), 'm1': merge(['@x', '@y']),
                         'z': cross('ABC', 'AB'), 'm2': merge(['@z'])}})
    # factors shared between blocks that desugar them differently
    G = within('G', ['A', 'C'], preds=(('table', [['a0', 'c0'], ['a1', 'c1']]), 'else'))
    S.append({'name': 'weighted-factor-crossed-and-uncrossed', 'factors': [A2, CW, G], 'constraints': {},
              'blocks': {'unc': cross('ACG', 'A'), 'crs': cross('ACG', 'AC'), 'unc2': cross('AC', 'A', [['AtMostKInARow', 1, 'C', 'c0']])}})
    S.append({'name': 'transition-factor-in-two-blocks', 'factors': [A2, B2, TRA], 'constraints': {'c': ['AtMostKInARow', 1, 'R', 'r0']},
              'blocks': {'b1': cross('ABR', 'AB', ['@c']), 'b2': cross('ABR', 'AR', ['@c']), 'r': repeat('@b2', [['MinimumTrials', 9]])}})
    S.append({'name': 'inner-block-in-two-nests', 'factors': [A2, B2, C2], 'constraints': {'p': ['Pin', 0, 'B', 'b1']},
              'blocks': {'inner': cross('B', 'B', ['@p']), 'n1': nest(cross('A', 'A'), '@inner'), 'n2': nest(cross('C', 'C'), '@inner')}})
    return S


def random_scenario(rnd, i):
    """Seeded random sharing pattern: two leaf blocks over the same factor objects that both use one or two shared
    constraint objects, a Merge of the two, a Repeat of the first and a Nest that uses the second as inner block."""
    fc = rnd.choice([C2, CW, C3])
    factors = [A2, B2, fc, TRA, {'name': 'E', 'levels': ['e0', 'e1']}]
    menu = [['AtMostKInARow', rnd.randint(1, 2), 'C', 'c0'], ['AtLeastKInARow', 2, 'C', 'c1'], ['ExactlyK', rnd.randint(1, 2), 'C', 'c0'],
            ['Pin', rnd.choice([0, 1, -1]), 'C', 'c0'], ['ExactlyKInARow', 2, 'C', 'c0'], ['MinimumTrials', rnd.randint(3, 7)],
            ['AtMostKInARow', 1, 'R', 'r0'], ['Exclude', 'C', 'c1']]
    cons = {'c': rnd.choice(menu), 'k': rnd.choice(menu)}
    use = lambda: [x for x in ('@c', '@k') if rnd.random() < 0.6]

    def design(extra):
        d = 'ABC' + extra
        if any(c[0] in ('AtMostKInARow',) and c[2] == 'R' for c in cons.values()):
            d += 'R'
        return d
    b1 = cross(design(''), rnd.choice(['AB', 'A', 'B']), use() or ['@c'], rcc=rnd.random() < 0.8)
    b2 = cross(design(''), 'C', use(), rcc=rnd.random() < 0.8)
    blocks = {'b1': b1, 'b2': b2}
    r = rnd.random()
    if r < 0.5:
        blocks['m'] = merge(['@b1', '@b2'], mode=rnd.choice(['repeat', 'weight']))
    if rnd.random() < 0.6:
        blocks['r'] = repeat('@b1', [['MinimumTrials', rnd.randint(4, 9)]] + ([('@k')] if rnd.random() < 0.3 else []))
    if rnd.random() < 0.4:
        blocks['n'] = nest(cross('E', 'E'), '@b2')
    if len(blocks) == 2:
        blocks['r'] = repeat('@b2', [['MinimumTrials', rnd.randint(3, 6)]])
    return {'name': f'random{i}', 'factors': factors, 'constraints': cons, 'blocks': blocks}


def _ref(c):
    """corpus helpers turn '@c' into ['@', 'c']; undo that."""
    if isinstance(c, list) and c and c[0] == '@':
        return ''.join(c)
    return c


def deps(bs):
    out = []
    if isinstance(bs, str):
        return [bs[1:]]
    for k in ('block', 'outer', 'inner'):
        if k in bs:
            out += deps(bs[k])
    for b in bs.get('blocks', []):
        out += deps(b)
    return out


def orders(blocks):
    names = list(blocks)
    for perm in itertools.permutations(names):
        pos = {n: i for i, n in enumerate(perm)}
        if all(pos[d] < pos[n] for n in names for d in deps(blocks[n]) if d in pos):
            yield perm


def expand(bs, blocks, cons):
    """Descriptor of the block with references replaced by their definitions (for the fresh build)."""
    if isinstance(bs, str):
        return expand(blocks[bs[1:]], blocks, cons)
    out = {k: v for k, v in bs.items()}
    out['constraints'] = [copy.deepcopy(cons[c[1:]]) if isinstance(c, str) else c for c in map(_ref, bs.get('constraints', []))]
    for k in ('block', 'outer', 'inner'):
        if k in out:
            out[k] = expand(out[k], blocks, cons)
    if 'blocks' in out:
        out['blocks'] = [expand(b, blocks, cons) for b in out['blocks']]
    return out


def build_shared(scn, order):
    import sweetpea as sp
    built = Built()
    build_factors({'factors': scn['factors']}, built)
    cobjs = {}
    bobjs = {}
    F = built.factors

    def cons_of(bs):
        out = []
        for c in map(_ref, bs.get('constraints', [])):
            if isinstance(c, str):
                if c[1:] not in cobjs:
                    cobjs[c[1:]] = build_constraint(scn['constraints'][c[1:]], built)
                out.append(cobjs[c[1:]])
            else:
                out.append(build_constraint(c, built))
        return out

    def mk(bs):
        if isinstance(bs, str):
            return bobjs[bs[1:]]
        cs = cons_of(bs)
        k = bs['kind']
        if k == 'cross':
            return sp.CrossBlock([F[n] for n in bs['design']], [F[n] for n in bs['crossing']], cs, bs.get('rcc', True))
        if k == 'multi':
            return sp.MultiCrossBlock([F[n] for n in bs['design']], [[F[n] for n in c] for c in bs['crossings']], cs,
                                      bs.get('rcc', True), mode=bs.get('mode', 'equal'),
                                      alignment=bs.get('alignment', 'equal preamble'))
        if k == 'repeat':
            return sp.Repeat(mk(bs['block']), cs)
        if k == 'merge':
            inner = [mk(b) for b in bs['blocks']]
            kw = {'mode': bs['mode']} if 'mode' in bs else {}
            return sp.Merge(inner, cs, **kw) if cs else sp.Merge(inner, **kw)
        if k == 'nest':
            o, i = mk(bs['outer']), mk(bs['inner'])
            return sp.Nest(o, i, cs) if cs else sp.Nest(o, i)
        raise ValueError(k)
    for name in order:
        bobjs[name] = mk(scn['blocks'][name])
    return bobjs


def comp_of_block(block):
    c = Comp()
    c.block = block
    with quiet():
        c.clauses = compiled_clauses(block)
        c.errors = bool(block.show_errors())
    c.support = block.variables_per_sample()
    c.T_lib = block.trials_per_sample()
    c.vt = variable_table(block)
    c.z = Z()
    c._closure = None
    c.desc = None
    return c


def check(sub, item):
    scn, order = item
    key0 = f"{scn['name']}:{'>'.join(order)}"
    with quiet():
        try:
            bobjs = build_shared(scn, order)
        except Exception as e:
            shared_error = e
            bobjs = None
    for name in order:
        key = f'{key0}:{name}'
        desc = {'factors': scn['factors'], 'block': expand(scn['blocks'][name], scn['blocks'], scn['constraints'])}
        data = {'scenario': scn, 'order': list(order), 'block': name}
        try:
            fresh = compile_design(desc, need_ref=False)
        except Rejected:
            fresh = None
        except Exception:
            continue
        if bobjs is None:
            if fresh is not None:
                sub.case(key)
                sub.violation(f'shared-build-fails:{key}', f'{key}: building with shared objects raises '
                              f'{type(shared_error).__name__}: {str(shared_error)[:80]}; each block builds alone',
                              dict(data, query='build'))
            return
        if fresh is None:
            continue
        sub.case(key, nontrivial=True)
        sub.programs += 1
        try:
            shared = comp_of_block(bobjs[name])
        except Exception as e:
            sub.violation(f'shared-compile-fails:{key}', f'{key}: compiling the shared block raises {type(e).__name__}',
                          dict(data, query='compile'))
            continue
        if shared.T_lib != fresh.T_lib:
            sub.violation(f'trials:{key}', f'{key}: {shared.T_lib} trials when built with shared objects, {fresh.T_lib} '
                          f'from fresh objects', dict(data, query='trials'))
            continue
        if shared.errors != fresh.errors:
            sub.violation(f'errors:{key}', f'{key}: synthesis error status differs', dict(data, query='errors'))
            continue
        if fresh.errors:
            continue
        bad = False
        for a, b, d in ((shared, fresh, 'shared-not-in-fresh'), (fresh, shared, 'fresh-not-in-shared')):
            r = inclusion(a, b, sub)
            if r in ('incomparable', 'inconclusive'):
                sub.note_inconclusive(f'{key}: {d} {r}')
            elif r is not None:
                bad = True
                sub.violation(f'{d}:{key}', f'{key}: {r["sequence"]} is a sequence of only one of the two builds ({d})',
                              dict(data, query=d, x=r['x1']))
                break
        if bad:
            continue
        # mismatch verdicts on sequences of the fresh block and single-cell changes
        import sweetpea as sp
        inc = Incremental(fresh.clauses)
        seqs = []
        for _ in range(2):
            sat, m = inc.solve()
            if not sat:
                break
            x = {v: bool(m[v]) for v in range(1, fresh.support + 1)}
            seqs.append(decode_model(fresh, x))
            inc.add([(-v if m[v] else v) for v in range(1, fresh.support + 1)])
        tests = list(seqs)
        for s in seqs[:1]:
            for f, col in s.items():
                lv = [l for l in dict.fromkeys(col) if l != '']
                for t in range(len(col)):
                    for l in lv:
                        if l != col[t] and col[t] != '':
                            c2 = {k: list(v) for k, v in s.items()}
                            c2[f][t] = l
                            tests.append(c2)
        for s in tests[:40]:
            with quiet():
                try:
                    v1 = sp.sample_mismatch_experiment(bobjs[name], {k: list(v) for k, v in s.items()})
                    v2 = sp.sample_mismatch_experiment(fresh.block, {k: list(v) for k, v in s.items()})
                except Exception:
                    continue
            if (v1 == {}) != (v2 == {}):
                sub.violation(f'mismatch-verdict:{key}', f'{key}: sample_mismatch_experiment gives {v1} with shared objects '
                              f'and {v2} with fresh ones for {s}', dict(data, query='verdict', sequence=s))
                break
    sub.sample({'scenario': scn['name'], 'order': list(order)}, limit=4)


def replay(data):
    scn, order, name = data['scenario'], data['order'], data['block']
    desc = {'factors': scn['factors'], 'block': expand(scn['blocks'][name], scn['blocks'], scn['constraints'])}
    q = data['query']
    try:
        with quiet():
            bobjs = build_shared(scn, order)
    except Exception:
        return q == 'build'
    if q == 'build':
        return False
    fresh = compile_design(desc, need_ref=False)
    try:
        shared = comp_of_block(bobjs[name])
    except Exception:
        return q == 'compile'
    if q == 'trials':
        return shared.T_lib != fresh.T_lib
    if q == 'errors':
        return shared.errors != fresh.errors
    if q == 'verdict':
        import sweetpea as sp
        s = data['sequence']
        with quiet():
            return (sp.sample_mismatch_experiment(bobjs[name], {k: list(v) for k, v in s.items()}) == {}) != \
                   (sp.sample_mismatch_experiment(fresh.block, {k: list(v) for k, v in s.items()}) == {})
    a, b = (shared, fresh) if q == 'shared-not-in-fresh' else (fresh, shared)
    xs = set(data['x'])
    from ..enginea import table_by_names
    ta, tb = table_by_names(a), table_by_names(b)
    xa = {v: v in xs for v in range(1, a.support + 1)}
    xb = {tb[k]: xa[ta[k]] for k in ta}
    return lib_sat_with_units(a, xa) and not lib_sat_with_units(b, xb)


def run(ctx):
    ctx.functions += ['cross_block._create (init_within_block on user constraints)', 'constraint.*.init_within_block / '
                      'sustain_within_block', 'cross_block.Nest (copying of outer constraints)', 'cross_block.Merge / Repeat',
                      'cross_block._desugar_factors_with_weights']
    scs = scenarios(ctx.tier)
    if ctx.tier == 'thorough':
        import random
        rnd = random.Random(ctx.seed * 15485863 + 11)
        scs = scs + [random_scenario(rnd, i) for i in range(60)]
    ctx.bounds = {'scenarios': [s['name'] for s in scs if not s['name'].startswith('random')] + (['60 seeded random sharing patterns'] if ctx.tier == 'thorough' else []), 'orders': 'every construction order that respects block references'}
    ctx.outside += ['more than 3 blocks per scenario / 5 for the Merge scenario', 'sharing patterns not listed']
    ctx.assumptions += ['z3/CryptoMiniSat sound']
    ctx.rule = 'one case per (scenario, order, block); non-trivial = both builds construct'
    items = [(s, o) for s in scs for o in orders(s['blocks'])]
    pmap(ctx, check, items)
