"""C21 Tabulation counts are exact.

Engine B: the level in every (experiment, factor, trial) cell and the membership of every trial in the `trials`
selection are SYMBOLIC choices; CrossHair executes the real tabulate_experiments with stdout captured, and the
postcondition parses the printed table with an independent reader: every combination of levels of the selected factors
appears exactly once per experiment, its frequency is the number of selected trials with that combination and its
percentage string is str(frequency / len(selected) * 100) + '%'.  Level names include multi-word names whose
concatenations collide and the empty string (a derived factor's inapplicable trial), which matches no combination.
"""
from ..common import HarnessError
from ..xhair import Case, run_cases, replay_harness

LEVEL = 'other'

HEADER = '''
import io, contextlib, itertools
import sweetpea as sp

def _conc(v, lo, hi):
    for c in range(lo, hi + 1):
        if v == c:
            return c
    raise AssertionError('outside the precondition')

def _table(fnames, flevels, cells, flags, n_exp, reverse_columns=False):
    """cells: per experiment, per factor, per trial: index into levels+[''];  flags: trial selection.
    reverse_columns: the experiment dicts list their columns in the opposite order from `factors`, after an extra
    column that is not selected."""
    factors = [sp.Factor(n, list(lv)) for n, lv in zip(fnames, flevels)]
    exps = []
    for e in range(n_exp):
        d = {}
        if reverse_columns:
            d['zz'] = ['k'] * len(flags)
        for fi, n in (reversed(list(enumerate(fnames))) if reverse_columns else enumerate(fnames)):
            opts = list(flevels[fi]) + ['']
            d[n] = [opts[c] for c in cells[e][fi]]
        exps.append(d)
    trials = [i for i, f in enumerate(flags) if f]
    buf = io.StringIO()
    with contextlib.redirect_stdout(buf):
        sp.tabulate_experiments(None, exps, factors, trials)
    return buf.getvalue(), exps, trials

def _parse(text, fnames):
    """Independent reader of the printed table: {experiment index: [(levels tuple, frequency str, proportion str)]}"""
    out = {}
    cur = None
    for line in text.splitlines():
        line = line.rstrip()
        if line.startswith('Experiment ') and line.endswith(':'):
            cur = int(line[len('Experiment '):-1])
            out[cur] = []
            continue
        if not line.strip() or cur is None:
            continue
        parts = [p.strip() for p in line.split(' | ')]
        if len(parts) != len(fnames) + 2:
            return None
        lv = []
        for n, p in zip(fnames, parts):
            if not p.startswith(n):
                return None
            lv.append(p[len(n):].strip())
        if not parts[-2].startswith('frequency ') or not parts[-1].startswith('proportion '):
            return None
        out[cur].append((tuple(lv), parts[-2][len('frequency '):].strip(), parts[-1][len('proportion '):].strip()))
    return out

def _expected(fnames, flevels, exps, trials):
    out = {}
    for ei, e in enumerate(exps):
        rows = []
        for combo in itertools.product(*flevels):
            cnt = sum(1 for t in trials if all(e[n][t] == c for n, c in zip(fnames, combo)))
            rows.append((tuple(combo), str(cnt), str(cnt / len(trials) * 100) + '%'))
        out[ei] = rows
    return out

def _check(ret, fnames, flevels):
    text, exps, trials = ret
    got = _parse(text, fnames)
    if got is None:
        return False
    want = _expected(fnames, flevels, exps, trials)
    if set(got) != set(want):
        return False
    return all(sorted(got[k]) == sorted(want[k]) for k in want)
'''


def I(s):
    return '\n'.join('    ' + l for l in s.strip('\n').splitlines())


def cases(tier):
    out = []
    shapes = [
        ('two_by_three', ['A', 'B'], [['x', 'y'], ['p', 'q', 'r']], 2, 1),
        ('colliding_names', ['side', 'cue'], [['left', 'left upper'], ['upper arrow', 'arrow']], 2, 1),
        ('one_factor', ['A'], [['x', 'y', 'z']], 3, 1),
        ('two_experiments', ['A'], [['x', 'y']], 2, 2),
        ('columns_reversed', ['A', 'B'], [['x', 'y'], ['x', 'y']], 2, 1),
    ]
    if tier == 'thorough':
        shapes += [('colliding_names3', ['side', 'cue'], [['left', 'left upper'], ['upper arrow', 'arrow']], 3, 1),
                   ('two_experiments2', ['A', 'B'], [['x', 'y'], ['p', 'q']], 2, 2),
                   ('three_trials', ['A', 'B'], [['x', 'y'], ['p', 'q', 'r']], 3, 1),
                   ('three_factors', ['A', 'B', 'C'], [['x', 'y'], ['p', 'q'], ['u', 'v']], 2, 1)]
    for name, fn, fl, T, E in shapes:
        cellargs = [f'c{e}_{fi}_{t}' for e in range(E) for fi in range(len(fn)) for t in range(T)]
        flagargs = [f's{t}' for t in range(T)]
        sig = ', '.join([f'{a}: int' for a in cellargs] + [f'{a}: bool' for a in flagargs])
        build = []
        for e in range(E):
            per_f = []
            for fi in range(len(fn)):
                per_f.append('[' + ', '.join(f'_conc(c{e}_{fi}_{t}, 0, {len(fl[fi])})' for t in range(T)) + ']')
            build.append('[' + ', '.join(per_f) + ']')
        impl = f"cells = [{', '.join(build)}]\nflags = [{', '.join('bool(' + a + ')' for a in flagargs)}]\n" \
               f"return _table({fn!r}, {fl!r}, cells, flags, {E}, {name == 'columns_reversed'})"
        pre = ' and '.join([f'0 <= {a} <= {len(fl[fi])}' for e in range(E) for fi in range(len(fn)) for t in range(T)
                            for a in [f'c{e}_{fi}_{t}']] + ['(' + ' or '.join(flagargs) + ')'])
        out.append(Case(name, sig, I(impl), I('return ' + pre), I(f'return _check(_ret, {fn!r}, {fl!r})'),
                        info={'factors': dict(zip(fn, fl)), 'trials': T, 'experiments': E}))
    return out


def replay(data):
    return replay_harness(data)


def run(ctx):
    ctx.functions += ['main.tabulate_experiments']
    ctx.bounds = {c.name: c.info for c in cases(ctx.tier)}
    ctx.outside += ['more than 3 trials / 3 factors / 2 experiments', 'an empty trial selection (division by zero is not '
                    'covered by the property)', 'the `block` argument form (factors are given explicitly)']
    ctx.stubs += ['sys.stdout redirected to a StringIO']
    ctx.assumptions += ['independent table reader in the harness header', 'CrossHair/z3 sound']
    ctx.rule = 'one case per shape; every cell level (incl. the empty string) and the trial selection are symbolic'
    ctx.explanation = ('CrossHair explores every assignment of levels to cells and every trial selection of each shape '
                       'through the real tabulate_experiments; the printed table is parsed independently and compared '
                       'with counts computed in the harness.')
    cs = cases(ctx.tier)
    ctx.sample({'case': cs[1].name, 'info': cs[1].info})
    run_cases(ctx, HEADER, cs, timeout=900 if ctx.tier == 'thorough' else 200, path_timeout=30, module_tag='c21',
              keyfn=lambda c, kw: f'tabulate:{c.name}')
