"""C10 Cardinality constraints are encoded exactly.

For each (n, k, relation, variable list) the real combine_cnf_with_requests() output is handed to the solver with
every variable symbolic:
  soundness     CNF(x,a) & not rel(popcount(x), k)                       must be unsat
  completeness  rel(popcount(x), k) & D(x,a) & not Rest(x,a)              must be unsat   (definability closure)
                cross-checked by z3's own quantifiers: rel & forall a. not CNF
  uniqueness    CNF(x,a) & CNF(x,a') & a != a'                            must be unsat
A sat answer is a concrete x; it is replayed through the library's own cnf_is_satisfiable().
"""
import itertools
import random

import z3

from ..common import HarnessError, quiet, pmap
from ..sat import Z, z3_check, definability_closure, not_exists_aux_z3, uniqueness_query, max_var, solve

LEVEL = 'translation_validation'
KINDS = ('EQ', 'LT', 'GT')


def build(kind, k, varlist):
    from sweetpea._internal.core.cnf import CNF, Var
    from sweetpea._internal.core.generate.utility import combine_cnf_with_requests, GenerationRequest, AssertionType
    req = GenerationRequest(AssertionType[kind], k, [Var(v) for v in varlist])
    cnf = combine_cnf_with_requests(CNF(), max(varlist), len(varlist), [req])
    return cnf.as_list_of_list_of_ints()


def rel_holds(kind, cnt, k):
    return cnt == k if kind == 'EQ' else (cnt < k if kind == 'LT' else cnt > k)


def rel_z3(kind, xs, k):
    pairs = [(x, 1) for x in xs]
    if kind == 'EQ':
        return z3.PbEq(pairs, k)
    if kind == 'LT':
        return z3.PbLe(pairs, k - 1) if k >= 1 else z3.BoolVal(False)
    return z3.PbGe(pairs, k + 1)


def varlists(n, rnd, thorough):
    yield list(range(1, n + 1))
    if n >= 2:
        yield list(range(n + 2, 2, -1))[:n]            # decreasing, offset
        vs = rnd.sample(range(1, 2 * n + 3), n)         # gaps, arbitrary order
        yield vs
    elif thorough:
        yield [4]


def replay(data):
    """True iff the real encoding disagrees with the relation on this input assignment (or is not unique)."""
    from sweetpea._internal.core.cnf import CNF
    from sweetpea._internal.core import cnf_is_satisfiable
    kind, k, vl = data['kind'], data['k'], data['varlist']
    asg = {int(v): b for v, b in data['assignment'].items()}
    clauses = build(kind, k, vl)
    units = [[v if asg[v] else -v] for v in vl]
    with quiet():
        sat = cnf_is_satisfiable(CNF(clauses + units))
    want = rel_holds(kind, sum(1 for v in vl if asg[v]), k)
    if data.get('query') == 'uniqueness':
        # two different extensions for the same x
        a = [[int(v) if b else -int(v)] for v, b in data['model_a'].items()]
        b = [[int(v) if bb else -int(v)] for v, bb in data['model_b'].items()]
        with quiet():
            return bool(cnf_is_satisfiable(CNF(clauses + a))) and bool(cnf_is_satisfiable(CNF(clauses + b))) \
                and data['model_a'] != data['model_b']
    return bool(sat) != want


def check_one(ctx, kind, k, vl):
    n = len(vl)
    clauses = build(kind, k, vl)
    z = Z()
    xs = [z.var(v) for v in vl]
    ref = rel_z3(kind, xs, k)
    F = z.cnf(clauses)
    key = f'{kind}:n={n}:k={k}'
    found = []
    # soundness
    r, m = z3_check(F + [z3.Not(ref)], ctx)
    if r == 'sat':
        asg = {v: z3.is_true(m.eval(z.var(v), model_completion=True)) for v in vl}
        found.append(('soundness', asg, {}))
    elif r != 'unsat':
        ctx.note_inconclusive(f'{key} soundness {r}')
    # completeness through the closure
    support = max(vl)
    # the input variables need not be 1..n: treat every variable <= max(vl) as protected (non-inputs never occur)
    clo = definability_closure(clauses, support)
    ctx.solver_s += clo.seconds
    if clo.status == 'conflict':
        r, m = z3_check([ref], ctx)
        if r == 'sat':
            asg = {v: z3.is_true(m.eval(z.var(v), model_completion=True)) for v in vl}
            found.append(('completeness', asg, {}))
    else:
        ne = not_exists_aux_z3(clo, z)
        if ne is None:
            ctx.note_inconclusive(f'{key} completeness: {len(clo.undefined)} undefined auxiliaries')
        else:
            r, m = z3_check(z.cnf(clo.d_clauses) + [ref, ne], ctx)
            if r == 'sat':
                asg = {v: z3.is_true(m.eval(z.var(v), model_completion=True)) for v in vl}
                found.append(('completeness', asg, {}))
            elif r != 'unsat':
                ctx.note_inconclusive(f'{key} completeness {r}')
        # second opinion with z3 quantifiers (small circuits only)
        aux = sorted({abs(l) for c in clauses for l in c} - set(vl))
        if len(aux) <= 60 and n <= 6:
            qf = z3.ForAll([z.var(a) for a in aux], z3.Not(z3.And(F))) if aux else z3.Not(z3.And(F))
            r2, m2 = z3_check([ref, qf], ctx, timeout_ms=20000)
            cl_says = any(q == 'completeness' for q, _, _ in found)
            if r2 in ('sat', 'unsat') and (r2 == 'sat') != cl_says:
                raise HarnessError(f'{key}: closure ({cl_says}) and z3 quantifier ({r2}) disagree on completeness')
    # uniqueness
    u = uniqueness_query(clauses, support, ctx)
    if u == 'unknown':
        ctx.note_inconclusive(f'{key} uniqueness unknown')
    elif u is not None:
        ma, mb = u
        asg = {v: ma[v] for v in vl}
        found.append(('uniqueness', asg, {'model_a': {str(v): b for v, b in ma.items()},
                                          'model_b': {str(v): b for v, b in mb.items()}}))
    for query, asg, extra in found:
        data = {'kind': kind, 'k': k, 'varlist': vl, 'query': query,
                'assignment': {str(v): b for v, b in asg.items()}, **extra}
        if not replay(data):
            raise HarnessError(f'{key} {query}: counterexample did not reproduce against the real code: {data}')
        ctx.violation(f'{key}:{query}', f'{kind} k={k} over {n} variables {vl}: {query} fails for x={asg}', data)
    return clauses


def vacuity_guards(ctx):
    """A wrong reference must be caught (sat), and a freed auxiliary must be seen by the uniqueness query."""
    clauses = build('EQ', 2, [1, 2, 3, 4])
    z = Z()
    wrong = rel_z3('EQ', [z.var(v) for v in [1, 2, 3, 4]], 3)
    r, _ = z3_check(z.cnf(clauses) + [z3.Not(wrong)], ctx)
    if r != 'sat':
        raise HarnessError('vacuity: soundness query cannot refute a wrong reference')
    clo = definability_closure(clauses, 4)
    ne = not_exists_aux_z3(clo, z)
    r, _ = z3_check(z.cnf(clo.d_clauses) + [wrong, ne], ctx)
    if r != 'sat':
        raise HarnessError('vacuity: completeness query cannot refute a wrong reference')
    aux = sorted({abs(l) for c in clauses for l in c if abs(l) > 4})
    status_fixed = definability_closure(clauses, 4).fixed
    victim = next(a for a in aux if a not in status_fixed)
    freed = [c for c in clauses if all(abs(l) != victim for l in c)] + [[victim, -victim]]
    if uniqueness_query(freed, 4, ctx) is None:
        raise HarnessError('vacuity: uniqueness query does not see a freed auxiliary')


def run(ctx):
    thorough = ctx.tier == 'thorough'
    nmax = 20 if thorough else 10
    rnd = random.Random(ctx.seed)
    ctx.functions += ['core.generate.utility.combine_cnf_with_requests', 'core.cnf.CNF.assert_k_of_n',
                      'core.cnf.CNF._inequality_assertion', 'core.cnf.CNF._make_same_length',
                      'core.cnf.CNF._convert_to_negative_twos_complement', 'core.cnf.CNF.pop_count',
                      'core.cnf.CNF.ripple_carry', 'core.cnf.CNF.ripple_saturate', 'core.binary.int_to_binary']
    ctx.bounds = {'n': f'1..{nmax}', 'k': '0..n+3', 'relations': list(KINDS),
                  'variable_lists': 'contiguous 1..n; decreasing with offset; random with gaps (VERIF_SEED)'}
    ctx.outside += [f'n > {nmax}', 'k > n+3', 'several requests sharing auxiliaries (covered via designs in C01-C03)']
    ctx.assumptions += ['z3 and CryptoMiniSat are sound', 'input variables are distinct (documented precondition)']
    ctx.rule = ('every (n,k,relation,variable list) in the bound; non-trivial = relation neither always true nor '
                'always false over the 2^n assignments (0<k<=n for EQ/LT, k<n for GT)')
    vacuity_guards(ctx)
    items = []
    for n in range(nmax, 0, -1):
        for k in range(0, n + 4):
            for kind in KINDS:
                for vl in varlists(n, rnd, thorough):
                    items.append((kind, k, vl))
    pmap(ctx, _one, items)
    ctx.exhaustive = True


def _one(sub, item):
    kind, k, vl = item
    n = len(vl)
    nontrivial = (kind == 'EQ' and 0 <= k <= n) or (kind == 'LT' and 1 <= k <= n) or (kind == 'GT' and k < n)
    sub.case(f'{kind}:{n}:{k}:{vl}', nontrivial)
    sub.programs += 1
    clauses = check_one(sub, kind, k, vl)
    if n == 3 and k == 2 and vl == [1, 2, 3]:
        sub.sample({'relation': kind, 'k': k, 'vars': vl, 'clauses': len(clauses),
                    'query': "CNF & not rel ; rel & D & not Rest ; CNF & CNF' & a!=a'"})
