"""C04 RandomGen returns only valid trial sequences.

Engine C (vf/exhaust.py): every candidate the real RandomGen can draw is enumerated through the enumerator's own
generation methods with random.randrange replaced by a systematic choice oracle; the real rejection test decides
acceptance.  The solver decides the for-every-sequence directions (see vf/randcheck.py for the queries).
"""
from ..common import pmap
from ..corpus import designs
from ..randcheck import check_random, replay_random

LEVEL = 'other'
QUERIES = ('valid',)


def replay(data):
    if data.get('query') == 'crosshair':
        from ..xhair import replay_harness
        return replay_harness(data)
    return replay_random(data)


def run(ctx):
    limit = 60000 if ctx.tier == 'thorough' else 5000
    ctx.functions += ['sampling_strategy.random.UCSolutionEnumerator (all generation/counting methods)',
                      'RandomGen.__are_constraints_violated', 'constraint.*.potential_sample_conforms',
                      'combinatorics.* (through the enumerator)', 'check_mismatch.combinations_mismatched_weights']
    ctx.bounds = {'designs': 'fixed corpus + 40 (thorough 400) seeded random descriptors that RandomGen accepts',
                  'candidates': f'designs with at most {limit} candidate keys are enumerated completely'}
    ctx.outside += [f'designs with more than {limit} candidates', 'RandomGen(acceptable_error > 0)',
                    'designs the reference refuses to judge']
    ctx.stubs += ['random.randrange replaced by an exhaustive choice oracle (every draw sequence is visited once)']
    ctx.assumptions += ['reference semantics vf/ref.py (not used by C07)', 'z3/CryptoMiniSat sound']
    ctx.rule = 'one case per descriptor; non-trivial = at least 2 accepted candidates'
    ctx.explanation = ('The quantifier over random draws is discharged by exhaustive enumeration of the draw sequences '
                       '(library-performed, bounded); the quantifier over sequences (nothing valid missing / agreement '
                       'with the compiled formula) is discharged by z3 / CryptoMiniSat over all trial assignments.')
    import os
    os.environ.setdefault('VERIF_ITEM_TIMEOUT', '300' if ctx.tier == 'thorough' else '45')
    ctx.outside.append('designs whose candidate enumeration exceeds the per-design time limit (reported inconclusive)')
    items = [(d, QUERIES, limit) for d in designs(ctx.tier, ctx.seed)]
    res = pmap(ctx, check_random, items)
    ctx.extra['design_outcomes'] = {str(k): res.count(k) for k in set(res)}
    from .. import conform
    from ..xhair import run_cases
    ctx.functions.append('constraint.*.potential_sample_conforms on a symbolic column (CrossHair)')
    run_cases(ctx, conform.HEADER, conform.cases(ctx.tier), timeout=600 if ctx.tier == 'thorough' else 150, path_timeout=30,
              module_tag='conform', keyfn=lambda c, kw: f'conform:{c.name}')
