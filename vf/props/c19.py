"""C19 A block stays usable and unchanged across library calls.

All call sequences up to a bounded length over {synthesize_trials with IterateSATGen / RandomGen / CMSGen / UniGen,
print_experiments, tabulate_experiments, save_experiments_csv, experiments_to_tuples, experiments_to_dicts,
sample_mismatch_experiment} are executed on corpus blocks (plain, derived factor listed first, with continuous factors (one computed from a discrete and a continuous factor), with a constrained weighted
factor, with a LatinSquare whose last segment is partial, a tiny 2x2 block).  After every call: block.design, crossings
and constraints are the same objects; the recompiled clause list equals the first one (syntactic equality; when it
differs, projection inclusion both ways is decided by the solver before anything is reported); a final synthesize_trials
succeeds, returns the requested number of sequences (all exist), each valid for the design (reference validator) and
with the same columns as the first call.  The history quantifier is enumeration.
"""
import itertools

from ..common import HarnessError, pmap, stable_hash, quiet
from ..corpus import D, A2, A3, B2, B3, C2, C3, CW, TRA, cross, repeat, nest
from ..designs import describe, build, compiled_clauses, variable_table
from ..ref import validate, Outside
from ..sat import Z
from .c18 import comp_of_block
from ..enginea import inclusion

LEVEL = 'other'
OPS = ('syn:IterateSATGen', 'syn:RandomGen', 'syn:CMSGen', 'syn:UniGen', 'print', 'tabulate', 'csv', 'tuples', 'dicts',
       'mismatch')


def blocks():
    out = [
        ('plain', D([A2, B2], cross('AB', 'AB')), None),
        ('transition', D([A2, B2, TRA], cross('ABR', 'AB', [['AtMostKInARow', 2, 'R', 'r0']])), None),
        ('weighted-constrained', D([A2, B2, CW], cross('ABC', 'AB', [['AtMostKInARow', 1, 'C', 'c0']])), None),
        ('latin-partial', D([A3, B3, C2], cross('ABC', 'AC', [['LatinSquare', ['A', 'B']]])), None),
        ('repeat', D([A2, B2], repeat(cross('AB', 'A', [['AtMostKInARow', 1, 'B', 'b0']]), [['MinimumTrials', 4]])), None),
        ('nest', D([A2, B2], nest(cross('A', 'A'), cross('B', 'B'))), None),
        # the design lists a (non-implied) derived factor before the basic ones
        ('derived-first', D([A2, B2, TRA], cross('RAB', 'AB', [['AtMostKInARow', 2, 'R', 'r0']])), None),
        ('continuous', D([A2, B2], cross('AB', 'AB')), 'continuous'),
    ]
    return out


def make(desc, extra):
    import sweetpea as sp
    with quiet():
        built = build(desc)
    if extra != 'continuous':
        return built.block
    from sweetpea._internal.constraint import ContinuousConstraint
    F = built.factors
    X = sp.ContinuousFactor('X', distribution=sp.UniformDistribution(0, 1))
    Y = sp.ContinuousFactor('Y', distribution=sp.CustomDistribution(lambda a, x: (a, x), [F['A'], X]))
    with quiet():
        return sp.CrossBlock([F['A'], X, F['B'], Y], [F['A'], F['B']], [ContinuousConstraint([X], lambda x: x <= 0.9)])


def snapshot(block):
    with quiet():
        clauses = compiled_clauses(block)
    return {'design': [id(f) for f in block.design], 'crossings': [[id(f) for f in c] for c in block.crossings],
            'constraints': [id(c) for c in block.constraints], 'orig_design': [id(f) for f in block.orig_design],
            'T': block.trials_per_sample(), 'clauses': clauses, 'vt': variable_table(block),
            'support': block.variables_per_sample()}


def do(op, block, last):
    import sweetpea as sp
    with quiet():
        if op.startswith('syn:'):
            return sp.synthesize_trials(block, 2, getattr(sp, op[4:]))
        exps = last
        if op == 'print':
            sp.print_experiments(block, exps)
        elif op == 'tabulate':
            sp.tabulate_experiments(block, exps, None, None) if len(block.crossings) == 1 else None
        elif op == 'csv':
            sp.save_experiments_csv(block, exps, 'c19')
        elif op == 'tuples':
            sp.experiments_to_tuples(block, exps)
        elif op == 'dicts':
            sp.experiments_to_dicts(block, exps)
        elif op == 'mismatch':
            for e in exps:
                sp.sample_mismatch_experiment(block, {k: v for k, v in e.items() if k not in ('X', 'Y')})
    return last


def run_history(sub, item):
    import sweetpea as sp
    name, desc, extra, hist = item
    key = f'history:{name}:{">".join(hist)}'
    sub.case(key)
    data = {'block': name, 'desc': desc, 'extra': extra, 'history': list(hist)}
    block = make(desc, extra)
    snap0 = snapshot(block)
    with quiet():
        first = sp.synthesize_trials(block, 2, sp.IterateSATGen)
    cols = sorted(first[0].keys()) if first else None
    last = first
    for i, op in enumerate(hist):
        try:
            last = do(op, block, last) or last
        except Exception as e:
            sub.violation(f'{key}:raises', f'{name}: after {list(hist[:i])}, {op} raises {type(e).__name__}: {str(e)[:100]}',
                          dict(data, query='raises'))
            return
        snap = snapshot(block)
        for part in ('design', 'crossings', 'constraints', 'orig_design', 'T', 'support'):
            if snap[part] != snap0[part]:
                sub.violation(f'{key}:changed:{part}', f'{name}: after {list(hist[:i + 1])} block.{part} is not what it was',
                              dict(data, query='changed'))
                return
        if sorted(map(sorted, snap['clauses'])) != sorted(map(sorted, snap0['clauses'])):
            # decide by the solver whether the formula still has the same sequences
            a, b = comp_of_block(block), comp_of_block(block)
            b.clauses, b.vt, b.support = snap0['clauses'], snap0['vt'], snap0['support']
            b._closure = None
            r1, r2 = inclusion(a, b, sub), inclusion(b, a, sub)
            if r1 is not None or r2 is not None:
                sub.violation(f'{key}:formula', f'{name}: after {list(hist[:i + 1])} the compiled formula has different '
                              f'sequences ({r1 or r2})', dict(data, query='formula'))
                return
    # final synthesis: succeeds, right number, valid, same columns
    for strat, want_n in (('IterateSATGen', 2), ('RandomGen', 2)):
        try:
            with quiet():
                out = sp.synthesize_trials(block, want_n, getattr(sp, strat))
        except Exception as e:
            sub.violation(f'{key}:final-raises:{strat}', f'{name}: after {list(hist)}, synthesize_trials({strat}) raises '
                          f'{type(e).__name__}: {str(e)[:100]}', dict(data, query='final'))
            return
        if len(out) != want_n:
            sub.violation(f'{key}:final-count:{strat}', f'{name}: after {list(hist)}, synthesize_trials({strat}, {want_n}) '
                          f'returns {len(out)} sequences', dict(data, query='final'))
            return
        for seq in out:
            if sorted(seq.keys()) != cols:
                sub.violation(f'{key}:columns:{strat}', f'{name}: after {list(hist)} the columns are {sorted(seq.keys())}, '
                              f'first call {cols}', dict(data, query='final'))
                return
            disc = {k: v for k, v in seq.items() if k not in ('X', 'Y')}
            if extra == 'continuous':
                n = len(seq['A'])
                if len(seq['X']) != n or len(seq['Y']) != n or any(x > 0.9 for x in seq['X']) or \
                        any(seq['Y'][t] != (seq['A'][t], seq['X'][t]) for t in range(n)):
                    sub.violation(f'{key}:continuous:{strat}', f'{name}: after {list(hist)}, {strat} returns continuous '
                                  f'columns that are not computed from the same trials: {seq}', dict(data, query='final'))
                    return
            try:
                ok, bad = validate(desc, disc)
            except Outside:
                ok = True
            if not ok:
                sub.violation(f'{key}:invalid:{strat}', f'{name}: after {list(hist)}, {strat} returns {disc} violating {bad[:3]}',
                              dict(data, query='final'))
                return
    # a small block asked repeatedly for everything it has (24 orders of a 2x2 crossing)
    if name == 'plain':
        for strat in ('RandomGen', 'IterateSATGen'):
            with quiet():
                out = sp.synthesize_trials(block, 24, getattr(sp, strat))
            if len(out) != 24:
                sub.violation(f'{key}:exhaust-again:{strat}', f'{name}: after {list(hist)}, asking {strat} for all 24 sequences '
                              f'returns {len(out)}', dict(data, query='final'))
                return


def replay(data):
    class S:
        def __init__(self): self.v = []
        solver_s = 0
        def case(self, *a, **k): pass
        def q(self, *a, **k): pass
        def note_inconclusive(self, *a): pass
        def violation(self, key, what, d): self.v.append(key)
    s = S()
    run_history(s, (data['block'], data['desc'], data['extra'], tuple(data['history'])))
    return bool(s.v)


def run(ctx):
    ctx.functions += ['main.synthesize_trials', 'main.print_experiments', 'main.tabulate_experiments',
                      'main.save_experiments_csv', 'main.experiments_to_tuples / _dicts', 'main.sample_mismatch_experiment',
                      'block.add_implied_levels', 'block.restore_continuous', 'sampling_strategy.*.sample']
    th = ctx.tier == 'thorough'
    ctx.bounds = {'blocks': [b[0] for b in blocks()], 'operations': list(OPS),
                  'history_length': 'all of length <= 2' + (' and all of length 3' if th else ' and 150 seeded of length 3')}
    ctx.outside += ['longer histories', 'IterateILPGen / SMGen']
    ctx.assumptions += ['reference validator for the validity of the final sequences']
    ctx.rule = 'one case per (block, history)'
    ctx.explanation = ('Bounded exhaustive enumeration of call histories on the real library; object identity, compiled '
                       'formula (syntactic, else solver-decided projection equality) and a final synthesis are checked '
                       'after each history.')
    import random
    rnd = random.Random(ctx.seed)
    hists = [()] + [(a,) for a in OPS] + [(a, b) for a in OPS for b in OPS]
    h3 = [(a, b, c) for a in OPS for b in OPS for c in OPS]
    hists += h3 if th else rnd.sample(h3, 150)
    items = [(n, d, e, h) for (n, d, e) in blocks() for h in hists]
    import os
    os.environ.setdefault('VERIF_ITEM_TIMEOUT', '120')
    ctx.sample({'block': 'continuous', 'history': ['syn:IterateSATGen', 'print', 'syn:RandomGen']})
    pmap(ctx, run_history, items)
