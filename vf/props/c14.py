"""C14 Trial/factor/level variables are allocated and decoded consistently.

Per design (no reference semantics needed):
 (a) the allocation table enc(t,f,l) is read off the real _encode_variable for the block's whole finite domain and
     handed to z3 as an if-then-else function of SYMBOLIC (t,f,l): injectivity (two symbolic triples), image exactly
     1..variables_per_sample() (a symbolic variable in range with no pre-image), strict monotonicity in t, agreement
     with factor_variables_for_trial / build_variable_lists / decode_variable tables, and every other variable of the
     compiled formula lies above the image;
 (b) Gen.decode + add_implied_levels on one-hot assignments: exhaustively for blocks with <= 3000 assignments, otherwise
     a base assignment and every single-cell change from two bases (concrete runs of the real decoder; labelled so).
"""
import itertools
import random

import z3

from ..common import HarnessError, pmap, stable_hash, quiet
from ..corpus import designs, D, A2, A3, B2, B3, C2, C3, TRA, TRB, cross, multi, repeat, nest, window, within, transition
from ..designs import describe, build, compiled_clauses, factor_key
from ..sat import z3_check
from . import c25

LEVEL = 'other'


def extra_designs():
    out = []
    W3 = window('W', 'A', 3)
    # implied complex-window factor listed before a non-implied one
    out.append(D([A2, B2, TRB, TRA], cross('ABSR', 'AR')))
    out.append(D([A2, B2, W3, TRA], cross('ABWR', 'AB', [['AtMostKInARow', 1, 'R', 'r0']])))
    out.append(D([A2, B2, TRA, window('W', 'B', 2, stride=2)], cross('ABRW', 'AB', [['ExactlyK', 1, 'W', 'w0']])))
    # Nest whose outer crossing contains a transition; an uncrossed window factor kept active by a constraint
    out.append(D([A2, B2, TRA, TRB], nest(cross('AR', 'AR'), cross('BS', 'B', [['AtMostKInARow', 2, 'S', 's0']]), alignment='parallel start')))
    out.append(D([A2, B2, C2, TRA, transition('Q', 'C')],
                 nest(cross('AR', 'AR'), cross('BCQ', 'B', [['AtMostKInARow', 2, 'Q', 'q0']]), alignment='parallel start')))
    out.append(D([A2, B2, TRA], nest(cross('AR', 'AR'), cross('B', 'B'), alignment='parallel start')))
    out.append(D([A2, B2, TRA, TRB], nest(cross('AR', 'AR'), cross('BS', 'B', [['AtMostKInARow', 2, 'S', 's0']]), alignment='post preamble')))
    out.append(D([A2, B2, TRA], nest(cross('AR', 'A', [['AtMostKInARow', 3, 'R', 'r0']]), cross('B', 'B'))))
    return out


def tables(block):
    T = block.trials_per_sample()
    cells = []   # (fi, t, li, var)
    facs = list(block.act_design)
    for fi, f in enumerate(facs):
        sc = block.sustain_count(f)
        for t in range(T):
            if f.applies_to_trial(t // sc + 1):
                for li, l in enumerate(f.levels):
                    cells.append((fi, t, li, block._encode_variable(f, l, t + 1)))
    return facs, T, cells


def check(sub, desc):
    key = stable_hash(desc)
    label = describe(desc)
    try:
        with quiet():
            built = build(desc)
            block = built.block
            clauses = compiled_clauses(block)
    except Exception:
        sub.case(key, nontrivial=False)
        return 'rejected'
    facs, T, cells = tables(block)
    support = block.variables_per_sample()
    sub.case(key, nontrivial=len(facs) >= 2)
    sub.programs += 1
    data = {'desc': desc}
    # ---- (a) the table as a symbolic function ---------------------------------------------------------------
    def enc(fi, t, li):
        e = z3.IntVal(-1)
        for (cf, ct, cl, v) in cells:
            e = z3.If(z3.And(fi == cf, t == ct, li == cl), v, e)
        return e

    def dom(fi, t, li):
        return z3.Or([z3.And(fi == cf, t == ct, li == cl) for (cf, ct, cl, v) in cells])
    f1, t1, l1, f2, t2, l2, v = z3.Ints('f1 t1 l1 f2 t2 l2 v')
    problems = []
    r, m = z3_check([dom(f1, t1, l1), dom(f2, t2, l2), z3.Or(f1 != f2, t1 != t2, l1 != l2),
                     enc(f1, t1, l1) == enc(f2, t2, l2)], sub)
    if r == 'sat':
        problems.append(('shared', f'({m[f1]},{m[t1]},{m[l1]}) and ({m[f2]},{m[t2]},{m[l2]}) share variable '
                                   f'{m.eval(enc(f1, t1, l1))}'))
    r, m = z3_check([v >= 1, v <= support] + [v != cv for (_, _, _, cv) in cells], sub)
    if r == 'sat':
        problems.append(('hole', f'variable {m[v]} <= variables_per_sample()={support} encodes no (trial,factor,level)'))
    r, m = z3_check([dom(f1, t1, l1), z3.Or(enc(f1, t1, l1) < 1, enc(f1, t1, l1) > support)], sub)
    if r == 'sat':
        problems.append(('range', f'choice ({m[f1]},{m[t1]},{m[l1]}) has variable {m.eval(enc(f1, t1, l1))} outside '
                                  f'1..{support}'))
    r, m = z3_check([dom(f1, t1, l1), dom(f1, t2, l1), t1 < t2, enc(f1, t1, l1) >= enc(f1, t2, l1)], sub)
    if r == 'sat':
        problems.append(('order', f'variables of factor {m[f1]} level {m[l1]} do not increase with the trial'))
    used = {abs(l) for c in clauses for l in c}
    image = {cv for (_, _, _, cv) in cells}
    # other variables of the formula must be above the image
    low_aux = sorted(u for u in used if u not in image and u <= max(image or [0]))
    if low_aux:
        problems.append(('aux-below', f'formula variables {low_aux[:5]} are not trial variables but lie within 1..{max(image)}'))
    # the other accessors must agree with the table
    by = {}
    for (fi, t, li, cv) in cells:
        by[(fi, t, li)] = cv
    for fi, f in enumerate(facs):
        sc = block.sustain_count(f)
        for li, l in enumerate(f.levels):
            if (f, l) in block.exclude:
                continue
            want = [by[(fi, t, li)] for t in range(T) if (fi, t, li) in by]
            got = [x for lst in block.build_variable_lists((f, l)) for x in lst]
            if got != want:
                problems.append(('lists', f'build_variable_lists({f.name},{l.name}) = {got[:6]}.. != table {want[:6]}..'))
                break
        for t in range(T):
            if f.applies_to_trial(t // sc + 1):
                got = block.factor_variables_for_trial(f, t + 1)
                want = [by[(fi, t, li)] for li, l in enumerate(f.levels) if (f, l) not in block.exclude]
                if got != want:
                    problems.append(('per-trial', f'factor_variables_for_trial({f.name},{t + 1}) = {got} != {want}'))
                    break
    for (fi, t, li, cv) in cells:
        try:
            df, dl = block.decode_variable(cv)
        except Exception as e:
            problems.append(('decode-variable', f'decode_variable({cv}) raises {type(e).__name__}'))
            break
        if df is not facs[fi] or dl.name != facs[fi].levels[li].name:
            problems.append(('decode-variable', f'decode_variable({cv}) = ({df.name},{dl.name}), allocated to '
                                                f'({facs[fi].name},{facs[fi].levels[li].name}) at trial {t}'))
            break
    # ---- (b) the real decoder on one-hot assignments ------------------------------------------------------------
    from sweetpea._internal.sampling_strategy.base import Gen
    cell_keys = sorted({(fi, t) for (fi, t, li, cv) in cells})
    nlev = {fi: len(f.levels) for fi, f in enumerate(facs)}
    total = 1
    for (fi, t) in cell_keys:
        total *= nlev[fi]
        if total > 3000:
            break
    rnd = random.Random(7)

    def run_decode(choice):
        lits = []
        for (fi, t) in cell_keys:
            for li in range(nlev[fi]):
                cv = by[(fi, t, li)]
                lits.append(cv if choice[(fi, t)] == li else -cv)
        with quiet():
            e = Gen.decode(block, lits)
        for fi, f in enumerate(facs):
            col = e.get(f.name)
            want = [(f.levels[choice[(fi, t)]].name if (fi, t) in choice else '') for t in range(T)]
            if col != want:
                return f'Gen.decode gives {f.name if isinstance(f.name, str) else "<hidden>"}={col}, chosen levels {want}'
        return None
    if total <= 3000:
        choices = (dict(zip(cell_keys, c)) for c in itertools.product(*[range(nlev[fi]) for (fi, t) in cell_keys]))
        mode = 'exhaustive'
    else:
        bases = [{k: rnd.randrange(nlev[k[0]]) for k in cell_keys} for _ in range(2)]
        lst = []
        for b in bases:
            lst.append(b)
            for k in cell_keys:
                for li in range(nlev[k[0]]):
                    if li != b[k]:
                        c = dict(b)
                        c[k] = li
                        lst.append(c)
        choices = lst
        mode = 'single-cell'
    n = 0
    for ch in choices:
        n += 1
        bad = run_decode(ch)
        if bad:
            problems.append(('decode', bad))
            break
    sub.extra['decode_runs_' + mode] = sub.extra.get('decode_runs_' + mode, 0) + n
    sub.sample({'design': label, 'trial_variables': support, 'cells': len(cell_keys), 'decode': mode}, limit=5)
    for kind, what in problems[:3]:
        sub.violation(f'{kind}:{key}', f'{label}: {what}', dict(data, query=kind))
    return 'ok'


def replay(data):
    class S:
        def __init__(self):
            self.v = []
            self.extra = {}
            self.programs = 0
        def case(self, *a, **k): pass
        def q(self, *a, **k): pass
        def sample(self, *a, **k): pass
        def violation(self, key, what, d): self.v.append(key)
    s = S()
    check(s, data['desc'])
    return any(k.startswith(data['query'] + ':') for k in s.v)


def run(ctx):
    ctx.functions += ['block.first_variable_for_level', 'block._get_previous_trials_variable_count',
                      'block.factor_variables_for_trial', 'block._encode_variable', 'block.decode_variable',
                      'block.build_variable_lists', 'block.variables_per_sample', 'sampling_strategy.base.Gen.decode']
    ctx.bounds = {'designs': 'fixed corpus + nest designs + 7 layout-specific designs + seeded random descriptors',
                  'decode': 'exhaustive one-hot assignments for blocks with <= 3000 of them, else two bases + all single-cell changes'}
    ctx.outside += ['one-hot assignments of larger blocks beyond single-cell changes (decode part only)']
    ctx.assumptions += ['z3 sound (table queries)', 'the decode part is concrete execution of the real decoder']
    ctx.rule = 'one case per descriptor; non-trivial = at least two non-implied factors'
    ctx.explanation = ('Allocation: the real encoder table as a z3 function of symbolic (trial,factor,level): injective, '
                       'onto 1..support, ordered, auxiliaries above, consistent with the other accessors. Decoding: the '
                       'real Gen.decode run on exhaustive / single-cell one-hot assignments.')
    ds = designs(ctx.tier, ctx.seed) + c25.nest_designs(ctx.tier, ctx.seed) + extra_designs()
    res = pmap(ctx, check, ds)
    ctx.extra['design_outcomes'] = {str(k): res.count(k) for k in set(res)}
