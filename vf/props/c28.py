"""C28 ILP export accepts the same assignments as the SAT encoding.

The real combine_and_save_opb() writes OPB text for a clause set + cardinality requests; an independent reader turns
the text into z3 linear constraints P(x).  The SAT side is the real combine_cnf_with_requests().  With all variables
symbolic the solver decides   P(x) <=> exists aux. CNF(x,aux)   (CNF & not P unsat;  P & D & not Rest unsat), and, as
a third party, both against  clauses & rel(popcount,k).  The constraint appended by the real sample_ilp.update_file
is decided equivalent to  not cube(previous solution).
"""
import os
import random
import re

import z3

from ..common import HarnessError, pmap, quiet
from ..sat import Z, z3_check, definability_closure, not_exists_aux_z3

LEVEL = 'translation_validation'


def parse_opb(text, z):
    """Independent OPB reader: returns a list of z3 Boolean constraints."""
    out = []
    for raw in text.replace('\n', ' ').split(';'):
        toks = raw.split()
        if not toks:
            continue
        rel_i = next(i for i, t in enumerate(toks) if t in ('>=', '<=', '='))
        terms, rel, rhs = toks[:rel_i], toks[rel_i], int(toks[rel_i + 1])
        if len(toks) != rel_i + 2 or len(terms) % 2:
            raise ValueError(f'malformed OPB constraint: {raw!r}')
        lhs = []
        for c, v in zip(terms[::2], terms[1::2]):
            if not re.fullmatch(r'[+-]\d+', c) or not re.fullmatch(r'v\d+', v):
                raise ValueError(f'malformed OPB term: {c} {v}')
            lhs.append(int(c) * z3.If(z.var(int(v[1:])), 1, 0))
        s = z3.Sum(lhs) if lhs else z3.IntVal(0)
        out.append(s >= rhs if rel == '>=' else (s <= rhs if rel == '<=' else s == rhs))
    return out


def eval_opb(text, asg):
    """Concrete evaluator (used for replay only)."""
    for raw in text.replace('\n', ' ').split(';'):
        toks = raw.split()
        if not toks:
            continue
        rel_i = next(i for i, t in enumerate(toks) if t in ('>=', '<=', '='))
        s = sum(int(c) * (1 if asg[int(v[1:])] else 0) for c, v in zip(toks[:rel_i:2], toks[1:rel_i:2]))
        rhs = int(toks[rel_i + 1])
        ok = s >= rhs if toks[rel_i] == '>=' else (s <= rhs if toks[rel_i] == '<=' else s == rhs)
        if not ok:
            return False
    return True


def write_opb(clauses, reqs, support):
    from pathlib import Path
    from sweetpea._internal.core.cnf import CNF, Var
    from sweetpea._internal.core.generate.utility import combine_and_save_opb, GenerationRequest, AssertionType
    name = Path(f'c28-{os.getpid()}.opb')
    if name.exists():
        name.unlink()
    grs = [GenerationRequest(AssertionType[t], k, [Var(v) for v in vs]) for t, k, vs in reqs]
    with quiet():
        combine_and_save_opb(name, CNF([list(c) for c in clauses]), support, grs)
    text = name.read_text()
    name.unlink()
    return text


def sat_side(clauses, reqs, nvars):
    from sweetpea._internal.core.cnf import CNF, Var
    from sweetpea._internal.core.generate.utility import combine_cnf_with_requests, GenerationRequest, AssertionType
    grs = [GenerationRequest(AssertionType[t], k, [Var(v) for v in vs]) for t, k, vs in reqs]
    return combine_cnf_with_requests(CNF([list(c) for c in clauses]), nvars, nvars, grs).as_list_of_list_of_ints()


def meaning(clauses, reqs, z):
    out = [z.clause(c) for c in clauses]
    for t, k, vs in reqs:
        pairs = [(z.var(v), 1) for v in vs]
        out.append(z3.PbEq(pairs, k) if t == 'EQ' else
                   ((z3.PbLe(pairs, k - 1) if k >= 1 else z3.BoolVal(False)) if t == 'LT' else z3.PbGe(pairs, k + 1)))
    return z3.And(out) if out else z3.BoolVal(True)


def replay(data):
    from sweetpea._internal.core.cnf import CNF
    from sweetpea._internal.core import cnf_is_satisfiable
    if data['query'] == 'blocking':
        text = blocking_text(data['solution'])
        sol = data['solution']
        asg = {int(k): v for k, v in data['assignment'].items()}
        is_prev = all(asg[abs(l)] == (l > 0) for l in sol)
        return eval_opb(text, asg) == is_prev
    clauses, reqs, nvars = data['clauses'], [tuple(r) for r in data['requests']], data['nvars']
    asg = {int(k): v for k, v in data['assignment'].items()}
    text = write_opb(clauses, reqs, nvars)
    p = eval_opb(text, asg)
    cnf = sat_side(clauses, reqs, nvars)
    with quiet():
        s = bool(cnf_is_satisfiable(CNF(cnf + [[v if asg[v] else -v] for v in range(1, nvars + 1)])))
    return p != s


def blocking_text(solution):
    from pathlib import Path
    from sweetpea._internal.core.generate.sample_ilp import update_file
    name = Path(f'c28b-{os.getpid()}.opb')
    name.write_text('')
    update_file(name, list(solution))
    text = name.read_text()
    name.unlink()
    return text


def check_case(sub, item):
    clauses, reqs, nvars = item
    key = f'{clauses}|{reqs}'
    sub.case(key, nontrivial=bool(reqs) or len(clauses) > 1)
    sub.programs += 1
    z = Z()
    text = write_opb(clauses, reqs, nvars)
    try:
        P = z3.And(parse_opb(text, z))
    except Exception as e:
        raise HarnessError(f'OPB reader failed on {text!r}: {e}')
    cnf = sat_side(clauses, reqs, nvars)
    M = meaning(clauses, reqs, z)
    xs = list(range(1, nvars + 1))
    found = None
    r, m = z3_check(z.cnf(cnf) + [z3.Not(P)], sub)
    if r == 'sat':
        found = ('sat-accepts-opb-rejects', m)
    elif r != 'unsat':
        sub.note_inconclusive(f'{key} dir1 {r}')
    if found is None:
        clo = definability_closure(cnf, nvars)
        if clo.status == 'conflict':
            r, m = z3_check([P], sub)
            if r == 'sat':
                found = ('opb-accepts-sat-rejects', m)
        else:
            ne = not_exists_aux_z3(clo, z)
            if ne is None:
                sub.note_inconclusive(f'{key}: {len(clo.undefined)} undefined auxiliaries')
            else:
                r, m = z3_check(z.cnf(clo.d_clauses) + [P, ne], sub)
                if r == 'sat':
                    found = ('opb-accepts-sat-rejects', m)
                elif r != 'unsat':
                    sub.note_inconclusive(f'{key} dir2 {r}')
    if found:
        which, m = found
        asg = {v: z3.is_true(m.eval(z.var(v), model_completion=True)) for v in xs}
        # third party: which side deviates from the meaning?
        mv = z3.is_true(z3.simplify(z3.substitute(M, *[(z.var(v), z3.BoolVal(b)) for v, b in asg.items()])))
        pv = eval_opb(text, asg)
        blame = 'OPB text' if pv != mv else 'SAT encoding'
        data = {'query': 'equiv', 'clauses': clauses, 'requests': reqs, 'nvars': nvars,
                'assignment': {str(k): v for k, v in asg.items()}}
        if not replay(data):
            raise HarnessError(f'{key}: counterexample did not reproduce')
        kinds = ','.join(sorted({t for t, _, _ in reqs})) or 'clauses'
        sub.violation(f'equiv:{kinds}:{blame}:{key}',
                      f'{which}: clauses={clauses} requests={reqs} x={asg}; deviates from the meaning: {blame}', data)


def check_blocking(sub, sol):
    sub.case(f'blocking:{sol}')
    z = Z()
    text = blocking_text(sol)
    cons = z3.And(parse_opb(text, z))
    cube = z3.And([z.lit(l) for l in sol])
    r, m = z3_check([cons == cube], sub)   # constraint must be exactly the negation of the cube
    if r == 'sat':
        vs = sorted(abs(l) for l in sol)
        asg = {v: z3.is_true(m.eval(z.var(v), model_completion=True)) for v in vs}
        data = {'query': 'blocking', 'solution': sol, 'assignment': {str(k): v for k, v in asg.items()}}
        if not replay(data):
            raise HarnessError(f'blocking {sol}: counterexample did not reproduce')
        sub.violation(f'blocking:{sol}', f'update_file({sol}) does not exclude exactly that solution: {text!r} at {asg}',
                      data)
    elif r != 'unsat':
        sub.note_inconclusive(f'blocking {sol} {r}')


def _work(sub, item):
    if item[0] == 'B':
        check_blocking(sub, item[1])
    else:
        check_case(sub, item[1])


def run(ctx):
    thorough = ctx.tier == 'thorough'
    rnd = random.Random(ctx.seed)
    ctx.functions += ['core.cnf.CNF.as_opb_string', 'core.generate.utility.combine_and_save_opb',
                      'core.generate.utility.combine_cnf_with_requests', 'core.generate.sample_ilp.update_file']
    nrand = 3000 if thorough else 400
    ctx.bounds = {'request_sweep': 'each of EQ/LT/GT, n<=5 (thorough 7), k in 0..n+2, contiguous and gapped variable lists',
                  'random': f'{nrand} clause sets (<=4 clauses, <=3 literals incl. repeated and complementary literals, '
                            '<=5 variables) with 0..2 requests',
                  'blocking': 'every solution over <=4 (thorough 6) support variables, all sign patterns'}
    ctx.outside += ['Gurobi itself (the property is about the text)', 'larger clause sets']
    ctx.assumptions += ['independent OPB reader in this file (linear pseudo-Boolean constraints, v<i> variables)',
                        'z3 and CryptoMiniSat sound']
    ctx.rule = 'request sweep + seeded random clause sets; non-trivial = has a request or more than one clause'
    # vacuity: the reader must distinguish >= from <=
    z = Z()
    a, b = parse_opb('+1 v1 +1 v2 >= 1 ;', z), parse_opb('+1 v1 +1 v2 <= 1 ;', z)
    if z3_check([z3.And(a) == z3.And(b)], ctx)[0] != 'sat' or z3_check([z3.Not(z3.And(a) == z3.And(b))], ctx)[0] != 'sat':
        raise HarnessError('vacuity: OPB reader does not separate relations')
    items = []
    nmax = 7 if thorough else 5
    for n in range(1, nmax + 1):
        for vs in ([list(range(1, n + 1))] + ([[2 * i + 1 for i in range(n)][::-1]] if n <= 3 else [])):
            for k in range(0, n + 3):
                for t in ('EQ', 'LT', 'GT'):
                    items.append(('E', ([], [(t, k, vs)], max(vs))))
    for _ in range(nrand):
        nv = rnd.randint(1, 5)
        clauses = []
        for _ in range(rnd.randint(0, 4)):
            clauses.append([rnd.choice([1, -1]) * rnd.randint(1, nv) for _ in range(rnd.randint(1, 3))])
        reqs = []
        for _ in range(rnd.randint(0, 2)):
            vs = rnd.sample(range(1, nv + 1), rnd.randint(1, nv))
            reqs.append((rnd.choice(['EQ', 'LT', 'GT']), rnd.randint(0, len(vs) + 1), vs))
        items.append(('E', (clauses, reqs, nv)))
    smax = 6 if thorough else 4
    import itertools
    for n in range(1, smax + 1):
        for signs in itertools.product([1, -1], repeat=n):
            items.append(('B', [s * (i + 1) for i, s in enumerate(signs)]))
    ctx.sample({'clauses': [[1, -2], [-1, -1, 2]], 'requests': [('LT', 2, [1, 2, 3])],
                'opb': write_opb([[1, -2], [-1, -1, 2]], [('LT', 2, [1, 2, 3])], 3)})
    pmap(ctx, _work, items)
