"""C13 Combinatorial unranking functions are bijections with correct counts.

Engine B (CrossHair): for every parameter tuple in the bound the INDEX is symbolic.
  * extract_components / compute_jth_combination / compute_jth_combination_without_replacement /
    compute_jth_permutation_prefix: one symbolic index j in [0,N): the result is a well-formed arrangement and an
    independent ranking function written in the harness maps it back to j (a left inverse => injective).
  * prefixes of permutations with copies (uniform m and per-element counters; fresh and count-primed memo):
    one symbolic index: well-formed; two symbolic indices j1 < j2 < N: results differ.
  * N itself (the domain bound) is the harness's own brute-force count of arrangements of that kind; the library's
    counting function must report the same N (evaluated concretely per tuple), which makes the maps onto by counting.
"""
import itertools
import math

from ..common import HarnessError
from ..xhair import Case, run_cases, replay_harness

LEVEL = 'other'

HEADER = '''
import itertools, math
from sweetpea._internal import combinatorics as C

def _rank_mixed(components, sizes):
    n, mul = 0, 1
    for c, s in zip(components, sizes):
        n += c * mul
        mul *= s
    return n

def _rank_digits(comb, base):
    n = 0
    for c in comb:
        n = n * base + c
    return n

def _choose(n, k):
    if k < 0 or k > n:
        return 0
    return math.comb(n, k)

def _rank_cns(comb):
    m = len(comb)
    return sum(_choose(c, m - i) for i, c in enumerate(comb))

def _rank_perm_prefix(p, n):
    used = [False] * n
    j, mul = 0, 1
    for i, v in enumerate(p):
        skip = 0
        for u in range(n):
            if u == v:
                break
            if not used[u]:
                skip += 1
        j += skip * mul
        mul *= (n - i)
        used[v] = True
    return j

def _wellformed_copies(seq, q, caps, first_n):
    if len(seq) != first_n:
        return False
    for v in seq:
        if not (0 <= v < q):
            return False
    for i in range(q):
        if sum(1 for v in seq if v == i) > caps[i]:
            return False
    return True
'''


def count_copies(q, caps, first_n):
    """Own brute-force count of sequences of length first_n over 0..q-1 using value i at most caps[i] times."""
    n = 0
    for seq in itertools.product(range(q), repeat=first_n):
        if all(seq.count(i) <= caps[i] for i in range(q)):
            n += 1
    return n


def tuples(tier):
    th = tier == 'thorough'
    T = {}
    T['mixed'] = [[2], [3, 2], [3, 4, 2], [2, 2, 2, 2], [1, 3], [5, 1, 2]] + ([[4, 3, 3, 2], [2, 7, 3], [6, 6]] if th else [])
    T['digits'] = [(1, 2), (2, 3), (3, 2), (3, 3), (4, 2), (2, 4), (1, 1)] + ([(4, 3), (5, 2), (3, 5), (2, 9)] if th else [])
    T['cns'] = [(3, 1), (4, 2), (5, 2), (5, 3), (6, 3), (6, 2), (4, 4), (5, 5), (3, 3)] + \
               ([(7, 3), (8, 2), (8, 4), (9, 3), (7, 7)] if th else [])
    T['perm'] = [(3, 3), (4, 2), (4, 3), (4, 4), (5, 2), (5, 3), (1, 1), (3, 1)] + ([(5, 4), (5, 5), (6, 2), (6, 3)] if th else [])
    T['copies'] = [(2, 2, 3), (2, 2, 4), (3, 2, 3), (3, 2, 4), (2, 3, 4), (3, 1, 2), (3, 1, 3), (2, 3, 2), (3, 2, 2),
                   (2, 2, 1), (2, 3, 5)] + ([(3, 2, 5), (3, 2, 6), (2, 3, 6), (4, 2, 3), (3, 3, 4), (4, 1, 4)] if th else [])
    T['varying'] = [(2, [2, 1], 2), (2, [2, 1], 3), (3, [1, 2, 1], 3), (3, [2, 2, 1], 4), (3, [1, 1, 1], 2),
                    (2, [3, 1], 3), (3, [2, 1, 2], 2)] + ([(3, [2, 2, 1], 5), (3, [3, 1, 2], 4), (4, [1, 2, 1, 1], 3),
                                                           (3, [2, 2, 2], 5)] if th else [])
    return T


def I(s):
    return '\n'.join('    ' + l for l in s.strip('\n').splitlines())


def build_cases(tier):
    cases = []
    concrete = []   # (description, thunk) evaluated concretely: library count == own count
    T = tuples(tier)
    for k, sizes in enumerate(T['mixed']):
        N = math.prod(sizes)
        cases.append(Case(f'mixed_{k}', 'j: int', I(f'return C.extract_components({sizes!r}, j)'),
                          I(f'return 0 <= j < {N}'),
                          I(f'return len(_ret) == {len(sizes)} and all(0 <= c < s for c, s in zip(_ret, {sizes!r})) '
                            f'and _rank_mixed(_ret, {sizes!r}) == j'),
                          info={'fn': 'extract_components', 'sizes': sizes, 'N': N}))
    for k, (l, n) in enumerate(T['digits']):
        N = n ** l
        cases.append(Case(f'digits_{k}', 'j: int', I(f'return C.compute_jth_combination({l}, {n}, j)'),
                          I(f'return 0 <= j < {N}'),
                          I(f'return len(_ret) == {l} and all(0 <= c < {n} for c in _ret) and _rank_digits(_ret, {n}) == j'),
                          info={'fn': 'compute_jth_combination', 'l': l, 'n': n, 'N': N}))
    for k, (n, m) in enumerate(T['cns']):
        N = math.comb(n, m)
        cases.append(Case(f'cns_{k}', 'j: int', I(f'return C.compute_jth_combination_without_replacement({n}, {m}, j)'),
                          I(f'return 0 <= j < {N}'),
                          I(f'return len(_ret) == {m} and all(0 <= c < {n} for c in _ret) and '
                            f'all(_ret[i] > _ret[i + 1] for i in range({m} - 1)) and _rank_cns(_ret) == j'),
                          info={'fn': 'compute_jth_combination_without_replacement', 'n': n, 'm': m, 'N': N}))
        concrete.append((f'n_choose_m({n},{m})', f'C.n_choose_m({n},{m})', N))
    for k, (n, m) in enumerate(T['perm']):
        N = math.perm(n, m)
        cases.append(Case(f'perm_{k}', 'j: int', I(f'return C.compute_jth_permutation_prefix({n}, {m}, j)'),
                          I(f'return 0 <= j < {N}'),
                          I(f'return len(_ret) == {m} and all(0 <= c < {n} for c in _ret) and len(set(_ret)) == {m} '
                            f'and _rank_perm_prefix(_ret, {n}) == j'),
                          info={'fn': 'compute_jth_permutation_prefix', 'n': n, 'm': m, 'N': N}, timeout=None))
    # large indices (beyond 2^53): the inversion sequence is mixed-radix arithmetic without branching, so one path
    # covers the whole range
    for k, (n, m) in enumerate([(20, 20), (25, 25), (30, 17), (40, 12)]):
        N = math.perm(n, m)
        radices = list(range(n, n - m, -1))
        cases.append(Case(f'inversion_{k}', 'j: int', I(f'return C.compute_jth_inversion_sequence({n}, {m}, j)'),
                          I(f'return 0 <= j < {N}'),
                          I(f'return len(_ret) == {m} and all(0 <= c < r for c, r in zip(_ret, {radices!r})) '
                            f'and _rank_mixed(_ret, {radices!r}) == j'),
                          info={'fn': 'compute_jth_inversion_sequence', 'n': n, 'm': m, 'N': N}))
    for memo_mode in ('fresh', 'primed'):
        for k, (q, m, first_n) in enumerate(T['copies']):
            caps = [m] * q
            N = count_copies(q, caps, first_n)
            if N == 0:
                continue
            mk = ('pm = C.PermutationMemo()' if memo_mode == 'fresh' else
                  f'pm = C.PermutationMemo()\nC.count_prefixes_of_permutations_with_copies({q}, {m}, {first_n}, pm)')
            info = {'fn': 'compute_jth_prefix_of_permutations_with_copies', 'q': q, 'm': m, 'first_n': first_n, 'N': N,
                    'memo': memo_mode}
            cases.append(Case(f'copies_{memo_mode}_{k}', 'j: int',
                              I(f'{mk}\nreturn C.compute_jth_prefix_of_permutations_with_copies({q}, {m}, {first_n}, j, pm)'),
                              I(f'return 0 <= j < {N}'), I(f'return _wellformed_copies(_ret, {q}, {caps!r}, {first_n})'),
                              info=info))
            if N <= (120 if tier == 'thorough' else 40):
                cases.append(Case(f'copies2_{memo_mode}_{k}', 'j1: int, j2: int',
                                  I(f'{mk}\na = C.compute_jth_prefix_of_permutations_with_copies({q}, {m}, {first_n}, j1, pm)\n'
                                    f'b = C.compute_jth_prefix_of_permutations_with_copies({q}, {m}, {first_n}, j2, pm)\n'
                                    f'return (list(a), list(b))'),
                                  I(f'return 0 <= j1 < j2 < {N}'), I('return _ret[0] != _ret[1]'),
                                  info=dict(info, pairwise=True), timeout=None))
            if memo_mode == 'fresh':
                concrete.append((f'count_permutations_with_copies({q},{m},{first_n})',
                                 f'C.count_permutations_with_copies({q},{m},{first_n})', N))
                concrete.append((f'count_prefixes_of_permutations_with_copies({q},{m},{first_n})',
                                 f'C.count_prefixes_of_permutations_with_copies({q},{m},{first_n},C.PermutationMemo())', N))
        for k, (q, counters, first_n) in enumerate(T['varying']):
            N = count_copies(q, counters, first_n)
            if N == 0:
                continue
            mk = ('pm = C.PermutationMemo()' if memo_mode == 'fresh' else
                  f'pm = C.PermutationMemo()\nC.count_prefixes_of_permutations_with_copies({q}, {counters!r}, {first_n}, pm)')
            info = {'fn': 'compute_jth_prefix_of_permutations_with_copies', 'q': q, 'counters': counters,
                    'first_n': first_n, 'N': N, 'memo': memo_mode}
            cases.append(Case(f'varying_{memo_mode}_{k}', 'j: int',
                              I(f'{mk}\nreturn C.compute_jth_prefix_of_permutations_with_copies({q}, {counters!r}, {first_n}, j, pm)'),
                              I(f'return 0 <= j < {N}'), I(f'return _wellformed_copies(_ret, {q}, {counters!r}, {first_n})'),
                              info=info))
            if N <= (120 if tier == 'thorough' else 40):
                cases.append(Case(f'varying2_{memo_mode}_{k}', 'j1: int, j2: int',
                                  I(f'{mk}\na = C.compute_jth_prefix_of_permutations_with_copies({q}, {counters!r}, {first_n}, j1, pm)\n'
                                    f'b = C.compute_jth_prefix_of_permutations_with_copies({q}, {counters!r}, {first_n}, j2, pm)\n'
                                    f'return (list(a), list(b))'),
                                  I(f'return 0 <= j1 < j2 < {N}'), I('return _ret[0] != _ret[1]'),
                                  info=dict(info, pairwise=True)))
            if memo_mode == 'fresh':
                concrete.append((f'count_permutations_with_varying_copies({q},{counters},{first_n})',
                                 f'C.count_permutations_with_varying_copies({q},{counters!r},{first_n})', N))
    return cases, concrete


def replay(data):
    if data.get('query') == 'bigindex':
        from sweetpea._internal import combinatorics as C
        n, m, j = data['n'], data['m'], data['j']
        perm = C.compute_jth_permutation_prefix(n, m, j)
        used = [False] * n
        back, mul = 0, 1
        for i, v in enumerate(perm):
            back += sum(1 for u in range(v) if not used[u]) * mul
            mul *= (n - i)
            used[v] = True
        return back != j
    if data.get('query') == 'count':
        from sweetpea._internal import combinatorics as C
        return eval(data['expr'], {'C': C}) != data['expected']
    return replay_harness(data)


def run(ctx):
    ctx.functions += [f'combinatorics.{f}' for f in ('extract_components', 'compute_jth_combination',
                      'compute_jth_combination_without_replacement', 'n_choose_m', 'compute_jth_permutation_prefix',
                      'compute_jth_inversion_sequence', 'construct_permutation',
                      'compute_jth_prefix_of_permutations_with_copies', 'k_prefixes_of_permutations_with_copies',
                      '_construct_permutation_with_copies', 'count_prefixes_of_permutations_with_copies',
                      'count_permutations_with_copies', 'count_permutations_with_varying_copies')]
    ctx.bounds = {k: str(v) for k, v in tuples(ctx.tier).items()}
    ctx.outside += ['parameter tuples beyond the listed ones (loops grow with them)', 'indices >= 2^53 (no float is '
                    'involved in the code as written; a change introducing floats at that magnitude is outside the bound)']
    ctx.stubs += ['Factor/Level __hash__ = id>>4 (not exercised here)']
    ctx.assumptions += ['CrossHair 0.0.110 models Python ints/lists faithfully; z3 sound',
                        'ranking functions and brute-force counts in the harness header']
    ctx.rule = ('one case per (function, parameter tuple, memo mode); non-trivial = the reachability twin is refuted '
                '(the postcondition is reached)')
    ctx.explanation = ('CrossHair decides, per parameter tuple, that for EVERY index in range the unranking result is '
                       'well-formed and ranks back to the index (or differs from every other index); counts are compared '
                       'with brute-force counts concretely.')
    cases, concrete = build_cases(ctx.tier)
    from sweetpea._internal import combinatorics as C
    for desc, expr, want in concrete:
        ctx.case('count:' + desc)
        got = eval(expr, {'C': C})
        if got != want:
            ctx.violation(f'count:{desc}', f'{desc} = {got}, brute-force count of arrangements = {want}',
                          {'query': 'count', 'expr': expr, 'expected': want})
    # concrete probes at very large indices (beyond 2^53), where a float slipping into the arithmetic would show
    import random as _r
    rnd = _r.Random(ctx.seed)
    for (n, m) in ((20, 20), (25, 25), (30, 17), (40, 12)):
        N = math.perm(n, m)
        probes = {N - 1, N - 2, 2 ** 53 + 1, 2 ** 60 + 3, N // 2 + 1, N // 3} | {rnd.randrange(2 ** 53, N) for _ in range(60)}
        for j in sorted(p for p in probes if 0 <= p < N):
            ctx.case(f'bigindex:{n}:{m}:{j}')
            perm = C.compute_jth_permutation_prefix(n, m, j)
            used = [False] * n
            back, mul = 0, 1
            for i, v in enumerate(perm):
                back += sum(1 for u in range(v) if not used[u]) * mul
                mul *= (n - i)
                used[v] = True
            if back != j or len(set(perm)) != m:
                ctx.violation(f'bigindex:compute_jth_permutation_prefix:{n}:{m}', f'compute_jth_permutation_prefix({n},{m},{j}) = '
                              f'{perm} ranks back to {back}', {'query': 'bigindex', 'n': n, 'm': m, 'j': j})
                break
    ctx.sample({'case': cases[3].name, 'info': cases[3].info, 'post': cases[3].post.strip()})
    run_cases(ctx, HEADER, cases, timeout=120 if ctx.tier == 'thorough' else 60, path_timeout=30, module_tag='c13',
              keyfn=lambda c, kw: f"{c.info['fn']}:{ {k: v for k, v in c.info.items() if k not in ('fn',)} }")
