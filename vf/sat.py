"""Engine A glue: SAT/SMT queries over clause lists produced by the real library.

Everything here is generic in the clause list: nothing is assumed about how the library built it.
  * solve()                 -- pycryptosat, one-shot, with assumptions
  * Z                       -- z3 Boolean variable pool + clause conversion
  * definability_closure()  -- split F into fixed units, a triangular total-functional definition set D and Rest,
                               so that  exists aux. F(x,aux)  ==  D and Rest  with D having exactly one aux per x
  * uniqueness_query()      -- F(x,a) & F(x,a') & a != a'
"""
import itertools
import time

import pycryptosat
import z3


# --------------------------------------------------------------------------------------------------------------------
# plain SAT
# --------------------------------------------------------------------------------------------------------------------

def solve(clauses, assumptions=(), ctx=None, time_limit=None):
    """Returns (True, model) / (False, None) / (None, None). model[v] is a bool for v >= 1."""
    t = time.time()
    s = pycryptosat.Solver(threads=1, **({'time_limit': time_limit} if time_limit else {}))
    for c in clauses:
        s.add_clause(c)
    sat, model = s.solve(list(assumptions))
    dt = time.time() - t
    if ctx is not None:
        ctx.q('sat' if sat else ('unknown' if sat is None else 'unsat'), dt)
    return sat, model


class Incremental:
    """One pycryptosat instance reused for many assumption queries."""
    def __init__(self, clauses):
        self.s = pycryptosat.Solver(threads=1)
        for c in clauses:
            self.s.add_clause(c)

    def add(self, clause):
        self.s.add_clause(clause)

    def solve(self, assumptions=(), ctx=None):
        t = time.time()
        sat, model = self.s.solve(list(assumptions))
        if ctx is not None:
            ctx.q('sat' if sat else ('unknown' if sat is None else 'unsat'), time.time() - t)
        return sat, model


def max_var(clauses):
    m = 0
    for c in clauses:
        for l in c:
            if abs(l) > m:
                m = abs(l)
    return m


def eval_clauses(clauses, model):
    """model: dict/list var -> bool. Returns index of first falsified clause or -1."""
    for i, c in enumerate(clauses):
        ok = False
        for l in c:
            if model[abs(l)] == (l > 0):
                ok = True
                break
        if not ok:
            return i
    return -1


# --------------------------------------------------------------------------------------------------------------------
# z3 side
# --------------------------------------------------------------------------------------------------------------------

class Z:
    """Pool of z3 Booleans named after DIMACS variables (optionally in a namespace)."""
    def __init__(self, prefix='v'):
        self.prefix = prefix
        self._v = {}

    def var(self, i):
        b = self._v.get(i)
        if b is None:
            b = z3.Bool(f'{self.prefix}{i}')
            self._v[i] = b
        return b

    def lit(self, l):
        return self.var(l) if l > 0 else z3.Not(self.var(-l))

    def clause(self, c):
        if len(c) == 1:
            return self.lit(c[0])
        return z3.Or([self.lit(l) for l in c])

    def cnf(self, clauses):
        return [self.clause(c) for c in clauses]

    def not_all(self, clauses):
        """Some clause is falsified."""
        return z3.Or([z3.And([self.lit(-l) for l in c]) if c else z3.BoolVal(True) for c in clauses]) \
            if clauses else z3.BoolVal(False)

    def model_of(self, m, upto):
        return {i: z3.is_true(m.eval(self.var(i), model_completion=True)) for i in range(1, upto + 1)}


def z3_check(assertions, ctx=None, timeout_ms=120000):
    """Returns ('sat', model) / ('unsat', None) / ('unknown', None)."""
    s = z3.Solver()
    s.set('timeout', timeout_ms)
    for a in assertions:
        s.add(a)
    t = time.time()
    r = str(s.check())
    dt = time.time() - t
    if ctx is not None:
        ctx.q(r, dt)
    return r, (s.model() if r == 'sat' else None)


# --------------------------------------------------------------------------------------------------------------------
# unit propagation that never fixes a protected (support) variable
# --------------------------------------------------------------------------------------------------------------------

def up_simplify(clauses, protected):
    """Propagate units on unprotected variables to fixpoint.
    Returns (status, fixed, clauses') with status in {'ok','conflict'}; units on protected variables stay clauses."""
    fixed = {}
    cur = [list(dict.fromkeys(c)) for c in clauses]
    changed = True
    while changed:
        changed = False
        units = {}
        for c in cur:
            if len(c) == 1 and abs(c[0]) not in protected:
                v, val = abs(c[0]), c[0] > 0
                if units.get(v, val) != val:
                    return 'conflict', fixed, cur
                units[v] = val
        if not units:
            break
        fixed.update(units)
        nxt = []
        for c in cur:
            sat = False
            out = []
            for l in c:
                v = abs(l)
                if v in units:
                    if units[v] == (l > 0):
                        sat = True
                        break
                else:
                    out.append(l)
            if sat:
                continue
            if not out:
                return 'conflict', fixed, cur
            nxt.append(out)
        cur = nxt
        changed = True
    return 'ok', fixed, cur


# --------------------------------------------------------------------------------------------------------------------
# definability closure
# --------------------------------------------------------------------------------------------------------------------

class Closure:
    def __init__(self):
        self.status = 'ok'        # 'ok' | 'conflict'
        self.fixed = {}           # aux var -> bool (by unit propagation)
        self.defs = {}            # aux var -> list of clauses (total + functional in earlier variables)
        self.order = []           # definition order
        self.rest = []            # remaining clauses
        self.undefined = []       # aux variables that occur but have no accepted definition
        self.seconds = 0.0

    @property
    def d_clauses(self):
        out = []
        for v in self.order:
            out.extend(self.defs[v])
        return out


def _total_functional(v, group):
    """group: clauses all mentioning v. True iff for every value of the other variables exactly one value of v
    satisfies the group.  v=0 works iff all P-remainders hold; v=1 works iff all N-remainders hold."""
    P, N = [], []
    others = set()
    for c in group:
        rem = [l for l in c if abs(l) != v]
        pos = any(l == v for l in c)
        neg = any(l == -v for l in c)
        if pos and neg:
            continue  # tautology
        (P if pos else N).append(rem)
        others.update(abs(l) for l in rem)
    others = sorted(others)
    if len(others) <= 10:
        idx = {o: i for i, o in enumerate(others)}
        Pm = [[(idx[abs(l)], l > 0) for l in rem] for rem in P]
        Nm = [[(idx[abs(l)], l > 0) for l in rem] for rem in N]
        for bits in range(1 << len(others)):
            pc = all(any(((bits >> i) & 1) == int(s) for i, s in rem) for rem in Pm)
            nc = all(any(((bits >> i) & 1) == int(s) for i, s in rem) for rem in Nm)
            if pc == nc:
                return False
        return True
    z = Z('t')
    pc = z3.And([z.clause(rem) if rem else z3.BoolVal(False) for rem in P]) if P else z3.BoolVal(True)
    nc = z3.And([z.clause(rem) if rem else z3.BoolVal(False) for rem in N]) if N else z3.BoolVal(True)
    r, _ = z3_check([pc == nc], timeout_ms=20000)
    return r == 'unsat'


def definability_closure(clauses, support_n):
    """Variables 1..support_n are the trial variables (never fixed, always 'defined')."""
    t0 = time.time()
    res = Closure()
    protected = set(range(1, support_n + 1))
    status, fixed, cur = up_simplify(clauses, protected)
    res.fixed = fixed
    if status == 'conflict':
        res.status = 'conflict'
        res.seconds = time.time() - t0
        return res
    # drop duplicate clauses
    seen = set()
    cl = []
    for c in cur:
        k = tuple(sorted(c))
        if k not in seen:
            seen.add(k)
            cl.append(c)
    occ = {}
    undef_count = []
    for i, c in enumerate(cl):
        n = 0
        for l in c:
            v = abs(l)
            if v > support_n:
                occ.setdefault(v, []).append(i)
        vs = {abs(l) for l in c if abs(l) > support_n}
        undef_count.append(len(vs))
    defined = set()
    used = [False] * len(cl)
    ready = {}   # v -> list of clause idx whose only undefined var is v
    for i, c in enumerate(cl):
        if undef_count[i] == 1:
            v = next(abs(l) for l in c if abs(l) > support_n)
            ready.setdefault(v, []).append(i)
    work = list(ready.keys())
    aux_vars = sorted(occ.keys())

    def try_define(v):
        idxs = [i for i in ready.get(v, []) if not used[i]]
        if not idxs:
            return None
        groups = {}
        for i in idxs:
            scope = frozenset(abs(l) for l in cl[i] if abs(l) != v)
            groups.setdefault(scope, []).append(i)
        cands = []
        scopes = sorted(groups.keys(), key=lambda s: -len(s))
        for s in scopes:
            cands.append(groups[s])
        for s in scopes:
            u = [i for s2 in scopes if s2 <= s for i in groups[s2]]
            if len(u) > len(groups[s]):
                cands.append(u)
        if len(groups) > 1:
            # definitions whose clauses have different (overlapping) scopes, e.g. a majority/carry gate: take, for every
            # union of two or three scopes, all ready clauses inside that union
            seen_u = set()
            for r in (2, 3):
                if len(scopes) > 12:
                    break
                for combo in itertools.combinations(scopes, r):
                    u = frozenset().union(*combo)
                    if len(u) > 8 or u in seen_u or u in groups:
                        continue
                    seen_u.add(u)
                    cands.append([i for s2 in scopes if s2 <= u for i in groups[s2]])
            cands.append(idxs)
        for cand in cands:
            if _total_functional(v, [cl[i] for i in cand]):
                return cand
        return None

    while work:
        v = work.pop()
        if v in defined:
            continue
        cand = try_define(v)
        if cand is None:
            continue
        defined.add(v)
        res.order.append(v)
        res.defs[v] = [cl[i] for i in cand]
        for i in cand:
            used[i] = True
        for i in occ[v]:
            undef_count[i] -= 1
            if undef_count[i] == 1 and not used[i]:
                w = next(abs(l) for l in cl[i] if abs(l) > support_n and abs(l) not in defined)
                ready.setdefault(w, []).append(i)
                work.append(w)
    res.rest = [cl[i] for i in range(len(cl)) if not used[i]]
    res.undefined = [v for v in aux_vars if v not in defined]
    res.seconds = time.time() - t0
    return res


def exists_aux_clauses(clo):
    """Clauses whose satisfiability for a given x is  exists aux. F(x, aux)  (valid when clo.undefined == [])."""
    return clo.d_clauses + clo.rest


def not_exists_aux_z3(clo, z, max_expand=10):
    """z3 formula over z's variables equivalent to  not exists aux. F(x,aux)  given the D part is asserted
    separately (D is total+functional so asserting it loses nothing). Returns None when too many undefined aux."""
    U = clo.undefined
    if not U:
        return z.not_all(clo.rest)
    if len(U) > max_expand:
        return None
    uset = set(U)
    r0 = [c for c in clo.rest if not any(abs(l) in uset for l in c)]
    r1 = [c for c in clo.rest if any(abs(l) in uset for l in c)]
    per_u = []
    for bits in itertools.product([False, True], repeat=len(U)):
        asg = dict(zip(U, bits))
        falsified = []
        for c in r1:
            sat = False
            rem = []
            for l in c:
                if abs(l) in asg:
                    if asg[abs(l)] == (l > 0):
                        sat = True
                        break
                else:
                    rem.append(l)
            if sat:
                continue
            falsified.append(z3.And([z.lit(-l) for l in rem]) if rem else z3.BoolVal(True))
        per_u.append(z3.Or(falsified) if falsified else z3.BoolVal(False))
    return z3.Or(z.not_all(r0), z3.And(per_u))


# --------------------------------------------------------------------------------------------------------------------
# uniqueness of the auxiliary extension
# --------------------------------------------------------------------------------------------------------------------

def uniqueness_query(clauses, support_n, ctx=None):
    """F(x,a) & F(x,a') & a != a'.  Returns None when unsat, else (model_a, model_b) as dicts var->bool."""
    n = max_var(clauses)
    used = set()
    for c in clauses:
        for l in c:
            used.add(abs(l))
    aux = sorted(v for v in used if v > support_n)
    if not aux:
        return None
    shift = n - support_n

    def prime(l):
        v = abs(l)
        if v <= support_n:
            return l
        return (v + shift) if l > 0 else -(v + shift)
    cl = [list(c) for c in clauses] + [[prime(l) for l in c] for c in clauses]
    nxt = n + shift + 1
    diffs = []
    for v in aux:
        d = nxt
        nxt += 1
        a, b = v, v + shift
        # d -> (a xor b)
        cl.append([-d, a, b])
        cl.append([-d, -a, -b])
        diffs.append(d)
    cl.append(diffs)
    sat, model = solve(cl, ctx=ctx)
    if sat is None:
        return 'unknown'
    if not sat:
        return None
    ma = {v: model[v] for v in range(1, n + 1)}
    mb = {v: (model[v] if v <= support_n else model[v + shift]) for v in range(1, n + 1)}
    return ma, mb


def count_models_projected(clauses, proj_vars, limit=100000, ctx=None):
    """Enumerate projections onto proj_vars with blocking clauses (used for reference counts)."""
    s = Incremental(clauses)
    out = []
    while len(out) < limit:
        sat, model = s.solve()
        if not sat:
            break
        asg = tuple(model[v] for v in proj_vars)
        out.append(asg)
        s.add([(-v if model[v] else v) for v in proj_vars])
    return out


# --------------------------------------------------------------------------------------------------------------------
# independent unary counter (reference for population counts at sizes where z3 arithmetic is slow)
# --------------------------------------------------------------------------------------------------------------------

def unary_counter(xs, next_var):
    """Definitional clauses for u[j] <=> (at least j of xs are true), j = 1..len(xs).
    s[i][j] <=> s[i-1][j] or (x_i and s[i-1][j-1]).  Returns (clauses, u (1-based dict), next_var)."""
    n = len(xs)
    clauses = []
    prev = {}   # j -> literal or True/False constants
    def const(j, i):
        return True if j == 0 else (False if j > i else None)
    for i in range(1, n + 1):
        cur = {}
        x = xs[i - 1]
        for j in range(1, i + 1):
            a = const(j, i - 1)
            a = prev.get(j) if a is None else a          # s[i-1][j]
            b = const(j - 1, i - 1)
            b = prev.get(j - 1) if b is None else b      # s[i-1][j-1]
            v = next_var
            next_var += 1
            cur[j] = v
            # t = x and b
            if b is True:
                t = x
            elif b is False:
                t = False
            else:
                t = next_var
                next_var += 1
                clauses += [[-t, x], [-t, b], [t, -x, -b]]
            # v <=> a or t
            terms = [q for q in (a, t) if q is not False]
            if any(q is True for q in terms):
                clauses.append([v])
            elif not terms:
                clauses.append([-v])
            else:
                clauses.append([-v] + terms)
                for q in terms:
                    clauses.append([v, -q])
        prev = cur
    return clauses, prev, next_var
