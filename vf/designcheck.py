"""Per-design worker shared by the R-based properties (C01, C02, C03, C14, C16, C25, C26)."""
import json
import time

from .common import HarnessError, stable_hash, quiet
from .designs import describe
from .enginea import (compile_design, reference, soundness, completeness, uniqueness, Rejected, closure_of,
                      decode_model, lib_sat_with_units, count_ref_models)
from .ref import Outside, validate, analyse
from . import corpus

MAX_CLAUSES = 60000


def dkey(desc):
    return stable_hash(desc)


def check_design(sub, item):
    """item = (desc, queries) with queries a subset of {'sound','complete','unique','trials'}.
    Records violations keyed '<query>:<descriptor hash>'."""
    desc, queries = item
    key = dkey(desc)
    label = describe(desc)
    need_ref = any(q in queries for q in ('sound', 'complete', 'trials'))
    try:
        comp = compile_design(desc, need_ref=need_ref)
    except Outside as e:
        sub.extra.setdefault('outside', []).append(f'{key}: {e}')
        sub.case(key, nontrivial=False)
        return 'outside'
    except Rejected as e:
        sub.extra.setdefault('rejected_by_constructor', []).append(f'{key}: {str(e)[:80]}')
        sub.case(key, nontrivial=False)
        return 'rejected'
    except (IndexError, KeyError, ZeroDivisionError, AssertionError, TypeError, AttributeError) as e:
        # an internal error while compiling an accepted design is C08's subject, not this property's
        sub.extra.setdefault('internal_error_C08', []).append(f'{key}: {type(e).__name__}: {str(e)[:60]}')
        sub.case(key, nontrivial=False)
        return 'internal-error'
    sub.programs += 1
    if not need_ref:
        if len(comp.clauses) > MAX_CLAUSES:
            sub.note_inconclusive(f'{key}: {len(comp.clauses)} clauses, skipped')
            return 'big'
        cex = uniqueness(comp, sub)
        clo = closure_of(comp)
        sub.extra['aux_defined'] = sub.extra.get('aux_defined', 0) + len(clo.order)
        sub.extra['aux_fixed_by_units'] = sub.extra.get('aux_fixed_by_units', 0) + len(clo.fixed)
        sub.extra['aux_undefined'] = sub.extra.get('aux_undefined', 0) + len(clo.undefined)
        if cex:
            data = {'desc': desc, 'query': 'unique', 'x': cex['x']}
            sub.violation(f'unique:{key}', f'{label}: two models share the trial assignment {cex["x"]}; they differ on '
                          f'auxiliaries {cex["differing_aux"]}', data)
        naux = len(clo.order) + len(clo.undefined) + len(clo.fixed)
        sub.case(key, nontrivial=naux > 0)
        sub.sample({'design': label, 'trial_variables': comp.support, 'clauses': len(comp.clauses), 'auxiliaries': naux},
                   limit=6)
        return 'errors' if comp.errors else 'ok'
    if comp.sem_error is not None:
        # the documented rules say "refuse", the constructor accepted: judged by C15/C16, not here
        sub.extra.setdefault('reference_refuses', []).append(f'{key}: {comp.sem_error[1]}')
        sub.case(key, nontrivial=False)
        return 'ref-refuses'
    if len(comp.clauses) > MAX_CLAUSES:
        sub.note_inconclusive(f'{key}: {len(comp.clauses)} clauses, skipped')
        return 'big'
    sem = comp.sem
    if sem.status != 'ok':
        # the documented rules leave no valid sequence (e.g. a complete crossing is required but impossible): the trial
        # count and the variable layout are moot; the formula must have no model, or synthesis must report an error
        sub.case(key, nontrivial=True)
        if 'sound' in queries and not comp.errors:
            from .sat import solve
            sat, m = solve(comp.clauses)
            if sat:
                seq = decode_model(comp, {v: bool(m[v]) for v in range(1, comp.support + 1)})
                sub.violation(f'sound:{key}', f'{label}: the documented rules leave no valid sequence, but the compiled '
                              f'formula has a model, decoding to {seq}', {'desc': desc, 'query': 'nonempty'})
        return 'empty'
    if 'trials' in queries and sem.T != comp.T_lib:
        sub.violation(f'trials:{key}', f'{label}: documented rules give {sem.T} trials, block reports {comp.T_lib}',
                      {'desc': desc, 'query': 'trials', 'expected': sem.T})
    try:
        R, problems = reference(comp)
    except Outside as e:
        sub.extra.setdefault('outside', []).append(f'{key}: {e}')
        sub.case(key, nontrivial=False)
        return 'outside'
    if R is None:
        if any(p.startswith('trial count') for p in problems):
            sub.case(key, nontrivial=True)
            if 'sound' in queries or 'complete' in queries:
                # any sequence the block returns has the wrong length
                data = {'desc': desc, 'query': 'length', 'expected': sem.T}
                if replay_design(data):
                    sub.violation(f'length:{key}', f'{label}: {problems[0]}', data)
            return 'trial-count'
        # the variable layout does not match the documented applicability: confirm through a real sequence
        from .sat import solve
        sat, m = solve(comp.clauses)
        if sat and not comp.errors:
            seq = decode_model(comp, {v: bool(m[v]) for v in range(1, comp.support + 1)})
            ok, bad = validate(desc, seq)
            if not ok:
                sub.case(key, nontrivial=True)
                data = {'desc': desc, 'query': 'layout'}
                sub.violation(f'layout:{key}', f'{label}: {problems[0]}; the formula has a model decoding to {seq} which '
                              f'violates {bad[:4]}', data)
                return 'layout'
        # the layout differs from the documented one (that is C14's subject) but no invalid sequence could be shown:
        # this design cannot be decided here
        sub.case(key, nontrivial=False)
        sub.note_inconclusive(f'{label}: cannot link variables to cells: {problems}')
        return 'unlinked'
    if sem.status != 'ok':
        import z3
        R = [('empty', z3.BoolVal(False))]
    nontrivial = True
    found = []
    if comp.errors:
        # synthesis reports an error and returns []: sound trivially; complete iff no valid sequence exists
        if 'complete' in queries:
            import z3
            from .sat import z3_check
            r, m = z3_check([e for _, e in R], sub)
            if r == 'sat':
                data = {'desc': desc, 'query': 'errors-but-valid'}
                if not replay_design(data):
                    raise HarnessError(f'{label}: errors-but-valid did not reproduce')
                sub.violation(f'errors-but-valid:{key}', f'{label}: synthesis reports an error and returns [] although '
                              f'valid sequences exist', data)
        sub.case(key, nontrivial=False)
        return 'errors'
    if 'sound' in queries:
        cex = soundness(comp, sub, R)
        if cex:
            data = {'desc': desc, 'query': 'sound', 'x': cex['x']}
            if not replay_design(data):
                raise HarnessError(f'{label}: soundness counterexample did not reproduce')
            sub.violation(f'sound:{key}', f'{label}: the compiled formula has a model decoding to {cex["sequence"]} '
                          f'which violates {cex["violated"]}', data)
    if 'complete' in queries:
        cex = completeness(comp, sub, R)
        if cex:
            data = {'desc': desc, 'query': 'complete', 'x': cex['x']}
            if not replay_design(data):
                raise HarnessError(f'{label}: completeness counterexample did not reproduce')
            sub.violation(f'complete:{key}', f'{label}: valid sequence {cex["sequence"]} has no model', data)
    if 'unique' in queries:
        cex = uniqueness(comp, sub)
        clo = closure_of(comp)
        sub.extra['aux_defined'] = sub.extra.get('aux_defined', 0) + len(clo.order)
        sub.extra['aux_undefined'] = sub.extra.get('aux_undefined', 0) + len(clo.undefined)
        if cex:
            data = {'desc': desc, 'query': 'unique', 'x': cex['x']}
            sub.violation(f'unique:{key}', f'{label}: two models share the trial assignment {cex["x"]}; they differ on '
                          f'auxiliaries {cex["differing_aux"]}', data)
    sub.case(key, nontrivial=nontrivial)
    sub.sample({'design': label, 'trials': sem.T, 'trial_variables': comp.support, 'clauses': len(comp.clauses)}, limit=6)
    return 'ok'


def replay_design(data):
    """Concrete confirmation against the real library."""
    desc = data['desc']
    q = data['query']
    comp = compile_design(desc)
    if q in ('length', 'trials'):
        return comp.T_lib != data['expected']
    if q == 'nonempty':
        from .sat import solve
        return bool(solve(comp.clauses)[0]) and not comp.errors and analyse(desc).status != 'ok'
    if q == 'layout':
        from .sat import solve
        sat, m = solve(comp.clauses)
        if not sat:
            return False
        seq = decode_model(comp, {v: bool(m[v]) for v in range(1, comp.support + 1)})
        return not validate(desc, seq)[0]
    if q == 'errors-but-valid':
        import sweetpea as sp
        with quiet():
            out = sp.synthesize_trials(comp.block, 5, sp.IterateSATGen)
        return out == [] and analyse(desc).status == 'ok'
    xs = set(data['x'])
    x = {v: (v in xs) for v in range(1, comp.support + 1)}
    if q == 'sound':
        # force the real IterateSATGen path onto this assignment: units appended to the file the library writes
        from pathlib import Path
        from sweetpea._internal.core.cnf import CNF
        from sweetpea._internal.core.generate.utility import combine_and_save_cnf
        from sweetpea._internal.core.generate.sample_non_uniform import compute_solutions
        from sweetpea._internal.sampling_strategy.base import Gen
        from sweetpea._internal.primitive import HiddenName
        br = comp.block.build_backend_request()
        path = Path('replay.cnf')
        with quiet():
            combine_and_save_cnf(path, CNF(br.get_cnfs_as_json()), br.fresh - 1, comp.support,
                                 br.get_requests_as_generation_requests())
            lines = path.read_text().strip().splitlines()
            head = lines[0].split()
            head[3] = str(int(head[3]) + comp.support)
            path.write_text('\n'.join([' '.join(head)] + lines[1:] + [f'{v if x[v] else -v} 0' for v in x]))
            sols = compute_solutions(path, comp.support, 1)
        path.unlink()
        if not sols:
            return False
        with quiet():
            e = Gen.decode(comp.block, list(sols[0]))
            e = comp.block.add_implied_levels(e)
        seq = {k: list(v) for k, v in e.items() if not isinstance(k, HiddenName)}
        ok, bad = validate(desc, seq)
        return not ok
    if q == 'complete':
        return not lib_sat_with_units(comp, x)
    if q == 'unique':
        from .sat import solve
        from .sat import Incremental
        s = Incremental(comp.clauses)
        units = [v if x[v] else -v for v in range(1, comp.support + 1)]
        sat, m1 = s.solve(units)
        if not sat:
            return False
        n = len(m1) - 1
        s.add([(-v if m1[v] else v) for v in range(comp.support + 1, n + 1)])
        sat2, m2 = s.solve(units)
        return bool(sat2)
    return False


def design_items(ctx, queries, filt=None, n=None):
    ds = corpus.designs(ctx.tier, ctx.seed, n) + corpus.formula_only_corpus()
    if filt:
        ds = [d for d in ds if filt(d)]
    return [(d, queries) for d in ds]
