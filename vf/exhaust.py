"""Engine C: the library's own candidate space of RandomGen, enumerated exhaustively through the enumerator's own
generation methods, with `random.randrange` replaced by a systematic choice oracle (depth-first over every sequence
of draws).  Every leaf is one candidate the real RandomGen can draw, with its key, its draw probability (product of
the range sizes), the rejection verdict of the real rejection test and the resulting sequence.  The solver then
decides the "for every sequence" directions (nothing valid is missing; agreement with the compiled formula)."""
import importlib
from fractions import Fraction

from .common import HarnessError, quiet


class TooMany(Exception):
    pass


class Oracle:
    """Replays a prefix of choices, then takes 0 for every new draw; next() advances odometer-style."""
    def __init__(self):
        self.prefix = []      # list of (choice, n)
        self.pos = 0

    def start(self):
        self.pos = 0

    def randrange(self, a, b=None):
        lo, hi = (0, a) if b is None else (a, b)
        n = hi - lo
        if n <= 0:
            raise ValueError('empty range for randrange')
        if self.pos < len(self.prefix):
            c, n0 = self.prefix[self.pos]
            if n0 != n:
                raise HarnessError('non-deterministic draw structure')
        else:
            c = 0
            self.prefix.append((0, n))
        self.pos += 1
        return lo + c

    def advance(self):
        """Move to the next choice sequence; False when exhausted."""
        self.prefix = self.prefix[:self.pos]
        while self.prefix:
            c, n = self.prefix[-1]
            if c + 1 < n:
                self.prefix[-1] = (c + 1, n)
                return True
            self.prefix.pop()
        return False

    def probability(self):
        p = Fraction(1)
        for _, n in self.prefix[:self.pos]:
            p /= n
        return p


class Candidate:
    __slots__ = ('key', 'prob', 'accepted', 'run', 'names', 'x')


def enumerate_candidates(block, limit):
    """All candidates of the real RandomGen for `block`.  Returns (info, [Candidate])."""
    rmod = importlib.import_module('sweetpea._internal.sampling_strategy.random')
    RandomGen = rmod.RandomGen
    with quiet():
        if block.show_errors():
            return {'errors': True}, []
        enum = rmod.UCSolutionEnumerator(block)
    info = {'errors': False, 'solution_count': enum.solution_count(),
            'preamble_count': enum.preamble_solution_count(), 'leftover_count': enum.leftover_solution_count()}
    if enum.solution_count() == 0:
        info['possible_keys'] = 0
        return info, []
    crossing_size = enum.crossing_size
    T = block.trials_per_sample()
    rounds = (T - enum._preamble_size) // crossing_size
    leftover = (T - enum._preamble_size) % crossing_size
    possible = enum.preamble_solution_count() * pow(enum.solution_count(), rounds) * enum.leftover_solution_count()
    info.update(rounds=rounds, leftover=leftover, possible_keys=possible)
    if possible > limit:
        raise TooMany(possible)
    oracle = Oracle()
    saved = rmod.random.randrange
    violated = getattr(RandomGen, '_RandomGen__are_constraints_violated')
    combine = getattr(RandomGen, '_RandomGen__combine_round')
    out = []
    rmod.random.randrange = oracle.randrange
    try:
        while True:
            oracle.start()
            svs = enum.generate_random_samples(rounds, leftover, {})
            c = Candidate()
            c.key = enum.extract_sequence_key(svs)
            c.prob = oracle.probability()
            run = svs[0][1]
            for r in range(rounds + (1 if leftover > 0 else 0)):
                run = combine(run, svs[r + 1][1])
            run = enum.fill_in_nonpreamble_uncrossed_derived(run, T)
            c.accepted = not violated(block, run, enum, rounds, leftover, 0)
            c.run = run
            c.names = enum.factors_and_levels_to_names(run) if c.accepted else None
            out.append(c)
            if len(out) > limit * 4:
                raise TooMany(len(out))
            if not oracle.advance():
                break
    finally:
        rmod.random.randrange = saved
    return info, out


def run_to_x(block, run):
    """Trial-variable assignment (set of true variables) of a RandomGen run, through the real encoder."""
    true_vars = set()
    for f in block.act_design:
        if f not in run:
            raise HarnessError(f'run has no column for non-implied factor {f.name}')
        for t, l in enumerate(run[f]):
            if l is None:
                continue
            true_vars.add(block._encode_variable(f, l, t + 1))
    return true_vars


def finish_names(block, names):
    """What synthesize_trials does after sampling: implied levels, hidden keys filtered."""
    from sweetpea._internal.primitive import HiddenName
    with quiet():
        e = block.add_implied_levels(dict(names))
    return {k: list(v) for k, v in e.items() if not isinstance(k, HiddenName)}
