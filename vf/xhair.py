"""Engine B: bounded symbolic execution of the real Python with CrossHair (z3 inside).

A harness is generated Python source made of *cases*.  Each case X has
    _impl_X(args)            calls the real library
    _pre_X(args) -> bool     bounds on the symbolic inputs
    _post_X(ret, args)       the property
    X(args)                  contracted wrapper  (pre: _pre_X, post: _post_X)       <- decided by CrossHair
    X__reach(args)           reachability twin   (pre: _pre_X, post: False)         <- must be refuted
One `crosshair check --report_all` process per contracted function, up to 14 in parallel.  Verdicts:
    confirmed       "Confirmed over all paths"            : holds for every input within the pre-condition
    counterexample  concrete arguments; re-run concretely in a fresh interpreter before being reported
    inconclusive    "Not confirmed" / "Unable to meet precondition" / timeout
"""
import os
import re
import subprocess
import sys
import tempfile
import time
from concurrent.futures import ThreadPoolExecutor

from .common import HarnessError, ROOT

PRELUDE = '''
import sys, os
sys.path.insert(0, {root!r})
from typing import List, Tuple, Dict, Optional
import sweetpea
from sweetpea._internal import primitive as _prim
# CrossHair makes hash(str) symbolic; real dicts keyed by Factor/Level then abort every path.  Equality on these
# classes is identity, so an identity-based hash changes no behaviour.
for _c in (_prim.Level, _prim.SimpleLevel, _prim.DerivedLevel, _prim.ElseLevel, _prim.Factor, _prim.SimpleFactor,
           _prim.DerivedFactor, _prim.ContinuousFactor):
    _c.__hash__ = lambda self: id(self) >> 4
# Var.__hash__ calls hash(int), which CrossHair also intercepts; for machine-size ints hash(n) == n (and -2 for -1).
from sweetpea._internal.core.cnf import Var as _Var
_Var.__hash__ = lambda self: (self._val if self._val != -1 else -2)
'''

MAIN = '''
if __name__ == '__main__':
    _fn = sys.argv[1]
    def _bind(*a, **k):
        return a, k
    _a, _kw = eval('_bind(' + sys.argv[2] + ')')
    try:
        _r = globals()['_impl_' + _fn](*_a, **_kw)
    except Exception as _e:
        print('REPLAY-EXCEPTION', type(_e).__name__, _e)
        sys.exit(6)
    _ok = bool(globals()['_post_' + _fn](_r, *_a, **_kw))
    print('REPLAY-POST', _ok, repr(_r)[:300])
    sys.exit(0 if _ok else 5)
'''


class Case:
    def __init__(self, name, sig, impl, pre, post, ret='object', info=None, timeout=None):
        """sig: 'j: int, k: int'; impl/pre/post: source of function bodies (indented 4)."""
        self.name, self.sig, self.impl, self.pre, self.post, self.ret = name, sig, impl, pre, post, ret
        self.info = info or {}
        self.timeout = timeout

    def argnames(self):
        return ', '.join(a.split(':')[0].strip() for a in self.sig.split(',') if a.strip())

    def source(self):
        an = self.argnames()
        return f'''
def _impl_{self.name}({self.sig}):
{self.impl}

def _pre_{self.name}({self.sig}) -> bool:
{self.pre}

def _post_{self.name}(_ret, {self.sig}) -> bool:
{self.post}

def {self.name}({self.sig}) -> {self.ret}:
    """
    pre: _pre_{self.name}({an})
    post: _post_{self.name}(_, {an})
    """
    return _impl_{self.name}({an})

def {self.name}__reach({self.sig}) -> {self.ret}:
    """
    pre: _pre_{self.name}({an})
    post: False
    """
    return _impl_{self.name}({an})
'''


def write_harness(path, header, cases):
    src = PRELUDE.format(root=ROOT) + header + ''.join(c.source() for c in cases) + MAIN
    with open(path, 'w') as fh:
        fh.write(src)
    lines = src.splitlines()
    where = {}
    for i, l in enumerate(lines, 1):
        m = re.match(r'def (\w+)\(', l)
        if m:
            where[m.group(1)] = i
    return where


def _crosshair(path, line, timeout, path_timeout):
    cmd = [sys.executable, '-m', 'crosshair', 'check', '--report_all', f'--per_condition_timeout={timeout}',
           f'--per_path_timeout={path_timeout}', f'{path}:{line}']
    env = dict(os.environ)
    env['PYTHONWARNINGS'] = 'ignore'
    env['PYTHONHASHSEED'] = '0'
    t = time.time()
    try:
        p = subprocess.run(cmd, capture_output=True, text=True, timeout=timeout * 3 + 120, env=env,
                           cwd=os.path.dirname(path))
        out = p.stdout + p.stderr
    except subprocess.TimeoutExpired:
        out = 'TIMEOUT'
    return out, time.time() - t


def classify(out):
    if 'Confirmed over all paths' in out:
        return 'confirmed', ''
    m = re.search(r'error: (.*)', out)
    if m:
        return 'counterexample', m.group(1)
    if 'Not confirmed' in out:
        return 'not_confirmed', ''
    if 'Unable to meet precondition' in out:
        return 'no_precondition', ''
    if out == 'TIMEOUT':
        return 'timeout', ''
    return 'unknown', out[-300:]


def parse_call(msg, name):
    """'false when calling name(j = 5, k = 2) (which returns ...)' -> 'j = 5, k = 2'"""
    i = msg.find(f'{name}(')
    if i < 0:
        return None
    j = i + len(name) + 1
    depth = 1
    k = j
    while k < len(msg) and depth:
        depth += msg[k] in '([{'
        depth -= msg[k] in ')]}'
        k += 1
    return msg[j:k - 1]


def replay_concrete(path, name, kwargs_src):
    p = subprocess.run([sys.executable, '-W', 'ignore', path, name, kwargs_src], capture_output=True, text=True,
                       timeout=600, cwd=os.path.dirname(path), env=dict(os.environ, PYTHONWARNINGS='ignore'))
    return p.returncode in (5, 6), (p.stdout + p.stderr)[-400:]


def run_cases(ctx, header, cases, timeout=60, path_timeout=20, procs=14, keyfn=None, module_tag='h'):
    """Generates the harness, decides every case (+ its reachability twin), records verdicts in ctx.
    keyfn(case, kwargs_src) -> finding key."""
    d = tempfile.mkdtemp(prefix='xh-', dir=os.getcwd())
    path = os.path.join(d, f'{module_tag}_harness.py')
    where = write_harness(path, header, cases)
    jobs = []
    for c in cases:
        jobs.append((c, c.name, c.timeout or timeout))
        jobs.append((c, c.name + '__reach', min(c.timeout or timeout, 30)))

    def work(job):
        c, fn, to = job
        out, dt = _crosshair(path, where[fn], to, min(path_timeout, to))
        return c, fn, out, dt
    with ThreadPoolExecutor(procs) as ex:
        results = list(ex.map(work, jobs))
    reach = {}
    main = {}
    for c, fn, out, dt in results:
        v, msg = classify(out)
        ctx.q('xh:' + v, dt)
        (reach if fn.endswith('__reach') else main)[c.name] = (v, msg, out)
    for c in cases:
        v, msg, out = main[c.name]
        rv, rmsg, rout = reach[c.name]
        ctx.case(f'{module_tag}:{c.name}:{c.info}', nontrivial=(rv == 'counterexample'))
        if rv != 'counterexample' and v == 'confirmed':
            # the assertion was never reached: a confirmed verdict would be vacuous
            ctx.note_inconclusive(f'{c.name} {c.info}: confirmed but reachability twin says {rv} (vacuous)')
            continue
        if v == 'confirmed':
            continue
        if v == 'counterexample':
            kw = parse_call(msg, c.name)
            if kw is None:
                ctx.note_inconclusive(f'{c.name} {c.info}: unparsed counterexample {msg[:120]}')
                continue
            ok, tail = replay_concrete(path, c.name, kw)
            if not ok:
                ctx.note_inconclusive(f'{c.name} {c.info}: counterexample ({kw}) did not reproduce concretely: {tail[-120:]}')
                continue
            key = keyfn(c, kw) if keyfn else f'{c.name}:{kw}'
            ctx.violation(key, f'{c.name} {c.info}: fails for {kw}: {msg[:200]} :: {tail[-160:]}',
                          {'query': 'crosshair', 'case': c.name, 'info': c.info, 'kwargs': kw, 'header': header,
                           'case_source': c.source()})
        else:
            ctx.note_inconclusive(f'{c.name} {c.info}: {v} {msg[:100]}')
    return main


def replay_harness(data):
    """Re-run a recorded CrossHair counterexample concretely against the current tree."""
    d = tempfile.mkdtemp(prefix='xhr-', dir=os.getcwd())
    path = os.path.join(d, 'replay_harness.py')
    with open(path, 'w') as fh:
        fh.write(PRELUDE.format(root=ROOT) + data['header'] + data['case_source'] + MAIN)
    ok, tail = replay_concrete(path, data['case'], data['kwargs'])
    return ok
