"""Engine B cases shared by C04 (RandomGen's rejection test) and C17 (the mismatch checker's constraint part):
each constraint class's potential_sample_conforms() on a SYMBOLIC column, in its own block and inside a Repeat (per
repetition windows), against a short reference written here from docs/_source/api/constraints.rst."""
from .xhair import Case

HEADER = '''
import sweetpea as sp

def _conc(v, lo, hi):
    for c in range(lo, hi + 1):
        if v == c:
            return c
    raise AssertionError('outside the precondition')

def _runs(col, name):
    out, n = [], 0
    for v in col:
        if v == name:
            n += 1
        elif n:
            out.append(n); n = 0
    if n:
        out.append(n)
    return out

def _ref(kind, k, col, name):
    if kind == 'AtMostKInARow':
        return all(r <= k for r in _runs(col, name))
    if kind == 'AtLeastKInARow':
        return all(r >= k for r in _runs(col, name))
    if kind == 'ExactlyKInARow':
        return all(r == k for r in _runs(col, name))
    if kind == 'ExactlyK':
        return sum(1 for v in col if v == name) == k
    if kind == 'Exclude':
        return name not in col
    if kind == 'Pin':
        i = k if k >= 0 else len(col) + k
        return 0 <= i < len(col) and col[i] == name
    raise ValueError(kind)

_CACHE = {}
def _setup(kind, k, nlev, repeat):
    key = (kind, k, nlev, repeat)
    if key in _CACHE:
        return _CACHE[key]
    A = sp.Factor('A', ['a0', 'a1']); B = sp.Factor('B', ['b0', 'b1'])
    C = sp.Factor('C', ['c%d' % i for i in range(nlev)])
    if kind == 'Exclude':
        ct = sp.Exclude((C, 'c0'))
    elif kind == 'Pin':
        ct = sp.Pin(k, (C, 'c0'))
    else:
        ct = getattr(sp, kind)(k, (C, 'c0'))
    block = sp.CrossBlock([A, B, C], [A, B], [ct])
    if repeat:
        block = sp.Repeat(block, [sp.MinimumTrials(8)])
    the = [c for c in block.constraints if type(c).__name__ == kind][0]
    _CACHE[key] = (block, the, A, B, C)
    return _CACHE[key]

def _run(kind, k, nlev, repeat, picks):
    block, ct, A, B, C = _setup(kind, k, nlev, repeat)
    T = block.trials_per_sample()
    col = [C.levels[p] for p in picks]
    sample = {A: [A.levels[(t // 2) % 2] for t in range(T)], B: [B.levels[t % 2] for t in range(T)], C: col}
    return bool(ct.potential_sample_conforms(sample, block))

def _want(kind, k, repeat, picks):
    names = ['c%d' % p for p in picks]
    if kind == 'Exclude' or not repeat:
        return _ref(kind, k, names, 'c0')
    return all(_ref(kind, k, names[s:s + 4], 'c0') for s in range(0, len(names), 4))
'''


def I(s):
    return '\n'.join('    ' + l for l in s.strip('\n').splitlines())


def cases(tier):
    out = []
    kinds = [('AtMostKInARow', 1), ('AtMostKInARow', 2), ('AtLeastKInARow', 2), ('AtLeastKInARow', 3), ('ExactlyKInARow', 2),
             ('ExactlyKInARow', 1), ('ExactlyK', 2), ('Exclude', 0), ('Pin', 0), ('Pin', -1), ('Pin', 2)]
    for kind, k in kinds:
        for repeat, T, nlev in ((False, 4, 3), (True, 8, 2)):
            if repeat and tier != 'thorough' and (kind, k) in (('AtMostKInARow', 2), ('AtLeastKInARow', 3), ('ExactlyKInARow', 1), ('Pin', 2)):
                continue
            args = [f'p{t}' for t in range(T)]
            sig = ', '.join(f'{a}: int' for a in args)
            pre = 'return ' + ' and '.join(f'0 <= {a} <= {nlev - 1}' for a in args)
            picks = '[' + ', '.join(f'_conc({a}, 0, {nlev - 1})' for a in args) + ']'
            kk = str(k).replace('-', 'm')
            out.append(Case(f'conf_{kind}_{kk}_{"rep" if repeat else "own"}', sig,
                            I(f'picks = {picks}\nreturn (_run({kind!r}, {k}, {nlev}, {repeat}, picks), _want({kind!r}, {k}, {repeat}, picks))'),
                            I(pre), I('return _ret[0] == _ret[1]'),
                            info={'constraint': kind, 'k_or_index': k, 'scope': 'per repetition of 4 in Repeat to 8' if repeat else 'own block (4 trials)',
                                  'column': f'{T} cells x {nlev} levels'}))
    return out
