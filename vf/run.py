"""Dispatcher: python -m vf.run <ID> [--tier quick|thorough] [--replay path]"""
import argparse
import importlib
import json
import os
import random
import sys
import traceback

from .common import Ctx, EXIT_HARNESS, HarnessError, enter_scratch


def main(argv=None):
    ap = argparse.ArgumentParser()
    ap.add_argument('pid')
    ap.add_argument('--tier', default=os.environ.get('VERIF_TIER') or 'quick', choices=['quick', 'thorough'])
    ap.add_argument('--replay', default=None)
    args = ap.parse_args(argv)
    pid = args.pid.upper()
    try:
        seed = int(os.environ.get('VERIF_SEED', '0') or 0)
    except ValueError:
        seed = 0
    try:
        mod = importlib.import_module(f'vf.props.{pid.lower()}')
    except ModuleNotFoundError as e:
        print(f'HARNESS-ERROR: no check for {pid}: {e}')
        return EXIT_HARNESS
    enter_scratch()
    random.seed(seed)
    if args.replay:
        with open(args.replay) as fh:
            data = json.load(fh)
        try:
            ok = mod.replay(data['replay'])
        except Exception:
            traceback.print_exc()
            return EXIT_HARNESS
        print(('REPRODUCED' if ok else 'NOT-REPRODUCED') + f" property={pid} key={data.get('key')}")
        return 1 if ok else 0
    ctx = Ctx(pid, args.tier, seed, getattr(mod, 'LEVEL', 'other'))
    try:
        mod.run(ctx)
    except HarnessError as e:
        ctx.harness_error(str(e))
    except Exception as e:  # a crash of the machinery is never a verdict
        traceback.print_exc()
        ctx.harness_error(f'{type(e).__name__}: {e}')
    return ctx.finish()


if __name__ == '__main__':
    sys.stdout.reconfigure(line_buffering=True)
    sys.exit(main())
